"""C20 — datasets survive a pickle round trip with identical behaviour.   (level: partial)

What runs
---------
The harness generates dataset graphs as *specs*, writes them out as the source of a temporary
importable module (in a fresh directory under the system temp dir, outside /repo and /verif, put on
`sys.path` of the child interpreters through PYTHONPATH and removed afterwards) in which every
callable is a module-level function and every dataset is built either in the explicit form
`d = dataset(_f, ...)` or in the decorator form `@dataset(...) def d(...)`.

Process A (real labrea from $VERIF_REPO, one per batch): imports the module, warms caches,
`pickle.dumps` the bundle `[node0, ..., root]` of every graph with every protocol, writes the bytes to
a file, abstracts the live object graph into a heap description for the Lean model (generic
reflection over `__dict__`, lists, dicts, tuples; functions by `module.qualname`; the module
namespace by `getattr`), unpickles every pickle in-process and observes copy and original.
Process B (a freshly started interpreter, one per batch): loads the bytes — the module is imported by
pickle itself — and observes the copies.

Observation of a bundle (identical code for original and copies): first the module's `reset_state()` (mutable state
that functions keep on themselves is re-initialised in place), then what every item of the bundle carries in its
instance `__dict__` read as data (public attributes, the metadata taken over from a wrapped function, whether
`__wrapped__` is what its qualified name is bound to); then, for a list of option dictionaries:
value or failure class (+ missing key) of `root.evaluate`, the effect log of that evaluation (what ran, what a
user cache was asked, what was logged), `validate()`, sorted `keys()`, sorted `explain()`; then `register('late', Option('LATE'))` on every
dataset of the bundle and evaluation again; then `root.overload('late2')(dataset(late_fn))` and
evaluation again; plus the lookup table of every `Overloaded` object before / after the late
registration.

Oracle (implementation alone): every copy (each protocol, in-process and fresh process) observes
exactly what the original observes.  `pickle.dumps` failing is a failure of the property, except —
known finding F12 — for graphs containing a decorator-form dataset when the failure is the
PicklingError "it's not the same object as <module>.<function>" for such a function.

Correspondence (model `LabreaModel/PickleSM.lean` through `drv_pickle`): the model, run on the heap
abstracted from the real objects, must agree on (a) whether the graph encodes and, if not, on the
name that is not bound to the function any more, (b) the lookup tables of all `Overloaded` objects
after the round trip and after one more `register`, and that each holds a lock again.

Wrapper / combinator family (graphs `w*`, `wrappers()`; directed, every run, every protocol, its interpreters run
beside the other batches).  A dataset builds its own `Cached` / `Logged` / `WithOptions` / `Computation` wrappers on
the fly, so graphs made of datasets alone never contain a STORED instance of those classes.  For each of
75 shapes — `cached(x)` with MemoryCache / a user `Cache` subclass / NoCache (function, decorator and constructor
form, nested, around a dataset), `Logged`, `Computation` + `ChainedEffect` / `CallbackEffect` / `LogEffect`,
`WithOptions` / `WithDefaultOptions`, `Option` (plain, value / template / evaluatable / factory default, typed,
container / callable / evaluatable domain, doc, dotted), `AllOptions`, an `Option.namespace` object (annotated,
defaulted, `Option.auto`, `Option.auto >> f` and nested members) whole, its nested namespace and each member, `Switch` /
`switch`, `case(...).when(...).otherwise(...)`, `coalesce`, `Overloaded`, `Template`, `Iter`, `evaluatable_list/
tuple/set/dict`, `Map`, `Map(...).values`, `FunctionApplication(.lift)`, `PartialApplication(.lift)`, `pipeline_step`, `PipelineStep`,
`Pipeline`, `apply` / `>>` / `bind`, `Value`, explicit datasets and derivatives, a registered abstract dataset, a
`@datasetclass`, `@interface` members with `@implements` / `.implementation` — two graphs are pickled: the node on
its own (next to `node.apply(w_show)`, through which it is observed) and the node stored inside one explicit-form
dataset as argument default, template parameter, switch branch, coalesce member, Iter member, inside
`WithOptions` / `cached` / `Logged` and as a registered overload implementation.  The dictionaries repeat one
dictionary, so a cached node is seen computing first and being served from its cache next (the effect log records
the function running and every get / set of the user cache), and one dictionary is evaluated before pickling, so a
memo travels.  Same oracle as for every other graph.
`coverage.node_class_coverage` in the evidence lists every class defined in a labrea module with the number of
pickled graphs whose live object graph contains an instance (walked in the pickling process), so a class nobody
pickles shows up with 0.
Namespace objects and `Map(...).values` used to fail on their own (RecursionError in `pickle.loads`; local lambda)
and were repaired in labrea: they are ordinary judged shapes, any failure of theirs is a violation (there is no
"not a picklable part" way out for a library node: `LIBRARY_PARTS` is empty, `coverage.unpicklable_library_nodes`
stays in the evidence and is `[]`).
Known finding F28 — `@interface` members declared by annotation, by an Evaluatable / constant default or by a function
in the class body, and implementation members given as functions, cannot be pickled — is handled like F12: six
witness shapes (`F28_WITNESS`: each member kind alone, one interface with the three kinds, an implementation whose
member is a function; each pickled through the member itself and through a dataset that uses the member) run in every
run.  A witness is excused exactly when `pickle.dumps` fails for every protocol with PicklingError naming the function
of such a member ("not the same object as <module>.<Class>.<member>" for a user function the library re-bound,
"attribute lookup <Class>.<member> on labrea.interface failed" for a function the library made up) AND
/verif/known_findings.json, read at run time, lists F28 for C20 (the same listing is required for F12); then one
`KNOWN-FINDING ... F28` line is printed.  Failing in any other way, or while F28 is not listed, is a violation with
the witness as replay; a witness that stops failing is judged like every other graph.  The model must agree on the
name that cannot be pickled (`E notSame <name>` / `E notFound labrea.interface.<name>`).

Function-object family (graphs `f*`, `functions()`; directed, every run, every protocol, beside the other batches).
The functions above are bare `def`s.  Real functions are objects with state and history; `FO_KINDS` are the kinds the
generated module defines at module level and hands to labrea:
  * a `def` carrying attributes, set after the definition or by a decorator that returns the same function:
    attributes pickle rejects (a `threading.Lock`, an `RLock`, a lambda, a generator, a module object, an open handle
    on os.devnull, a class defined inside a function, a closure) and picklable mutable ones the body reads (a call
    counter dict, a list it appends to — re-initialised in place by `reset_state()` —, a registry filled from the
    environment variable VERIF_C20_PROC, which is "A" in the pickling and "B" in the receiving interpreter, a slot given
    in order of definition, the order being reversed in the receiving interpreter);
  * `functools.wraps` chains whose wrapper is the module-level name (two levels; one carrying a lock taken over from
    the wrapped function), keyword-only defaults (`__kwdefaults__`), a non-trivial `__doc__` with forward-reference
    annotations, annotations referring to objects pickle rejects;
  * `functools.partial` objects (plain, with a picklable attribute, with a lock attribute), callable instances (plain,
    holding a lock), bound methods of a module-level singleton, static / class methods reached through the class,
    builtins (`len`, `list`, `bool`), `operator.itemgetter(0)` / `operator.truth`, standard-library functions
    (`platform.python_implementation`, `pprint.pformat`, `collections.OrderedDict`, `math.isfinite`).
Each kind fills every function-taking position its callables fit (`FO_POSITIONS`: body of `dataset(f)`, the same with
dispatch / callback / effects / default options, overload implementation through `overload(k)(f)` and
`register(k, dataset(f))`, callback, effect, `pipeline_step(f)`, `FunctionApplication.lift(f)`, `apply`, `>>`, `bind`,
`case(...).when(f, ...)`, Option `default_factory`, Option `domain`): in every run the body position is a graph of its
own and the others share a graph a few at a time (`FO_GROUPS`); the thorough tier adds one graph per position.
Oracle: as for every graph; a callable is a picklable part exactly when `pickle.dumps` of the bare callable succeeds in
the pickling process (checked there, `PARTS`), whatever hangs on it; graphs of callables that do not (a partial / an
instance holding a lock) are outside the property and counted (`coverage.function_objects`).  For the kinds whose state
depends on the process, a copy in the fresh interpreter is compared with the same graph as THAT interpreter builds it
from the module source (also observed there, `own_orig`) — the function travels by reference, so what it reads is what
the receiving process has — and such graphs are not evaluated before pickling; all other graphs are evaluated once
before pickling and compared with the original of the pickling process.
Known finding F33 — `dataset(f)` takes `f.__annotations__` over into the Dataset's instance `__dict__`
(functools.update_wrapper), where it is pickled by value, so a function that pickles on its own but is annotated with an
object pickle rejects gives a dataset that cannot be pickled — is handled like F12 and F28.  The witnesses run in every
run: a function annotated with `Annotated[int, <lambda>]` and one annotated with a class defined inside a function,
each as `dataset(f)` body, as `dataset(f, **kw)` and as `overload(k)(f)` (the graphs of the two `annotations_*` kinds
whose positions build a Dataset from the function; they carry `f33`: the qualified name of the annotation object).  A
witness is excused exactly when `pickle.dumps` fails for every protocol with PicklingError "attribute lookup <name> on
<module> failed" / AttributeError "Can't pickle local object '<name>'" naming that annotation object AND
/verif/known_findings.json, read at run time, lists F33 for C20; then one `KNOWN-FINDING ... F33` line is printed.
Failing in any other way, or while F33 is not listed, is a violation with the witness as replay; a witness that stops
failing is judged like every other graph; the SAME functions in every other position (callback, effect, step, lift,
apply, `>>`, bind, case-when, default_factory, domain) are ordinary judged graphs.  The model must agree on the name
that cannot be pickled (`E notFound <module>.<name>`).

"Picklable parts" (precise meaning used by the sweep): every callable handed to labrea is a
module-level `def` of the generated module (or a builtin; or one of the function objects above), every option value / default / pre-set
option is JSON, caches are `MemoryCache` / `NoCache`, callbacks and effects are such functions or
objects of `labrea.functions` / `pipeline_step` / `CallbackEffect` that pickle *on their own* (checked
per run: `map filter reduce flatmap flatten negate get get_from partial` do; the helpers built on
local lambdas — `add subtract multiply eq ne append concat merge into map_items ...` — do not and are
therefore not "picklable parts"; a dataset using one cannot be pickled, which is outside the
property as stated).  The decorator form of `pipeline_step` has the same defect as F12 and is not a
dataset; the sweep uses the explicit form `ps = pipeline_step(f)`.
"""
import sys
from pathlib import Path
sys.path.insert(0, str(Path(__file__).resolve().parent.parent))
from common import *          # noqa: F401,F403
import copy
import json
import os
import pickle
import random
import re
import shutil
import subprocess
import tempfile
import time
from collections import Counter
from concurrent.futures import ThreadPoolExecutor
from typing import Any, Dict, List, Optional, Tuple

SPEC = PropSpec(
    pid="C20",
    lean_modules=["LabreaProps.C20"],
    model_files=["LabreaModel/PickleSM.lean", "LabreaModel/PickleLemmas.lean", "DrvPickle.lean"],
    drivers=["drv_pickle"],
    technique="Lean 4 proof (state algebra of pickling) + differential correspondence; level: partial",
    trusted_base=[
        "CPython pickle (opcodes, __reduce_ex__/copyreg, class lookup, memo) is abstracted to "
        "LabreaModel/PickleSM.lean: objects = class + ordered attribute list, functions by qualified name "
        "through the module namespace, Overloaded.__getstate__/__setstate__; tied to the code by the "
        "differential run, not proved",
        "the abstraction function heap_of(objects) in this harness (reflection over __dict__ / containers, "
        "module namespace by getattr)",
        "that labrea's evaluate/keys/explain depend only on the reachable object graph up to renaming of "
        "object identities (hypothesis `Invariant` of theorem behaviour_preserved) — checked by comparing "
        "real observations before/after the real round trip, not proved",
    ],
    assumptions=[
        "picklable parts: module-level functions, JSON option values, MemoryCache/NoCache, callbacks/effects that "
        "pickle on their own (see module docstring)",
        "the receiving interpreter imports the same module source (names importable by the sender are defined "
        "in the receiver: hypothesis hrecv of state_roundtrip)",
        "user functions are deterministic; effects are observed only with the cache disabled (cache hits are "
        "value-transparent, so dropping cache entries on pickling is not a violation)",
        "function objects (graphs f*): a callable is a picklable part when pickle.dumps of the bare callable succeeds in "
        "the pickling process; for functions whose own state depends on the process they are imported into "
        "(environment variable, order of definition) a copy in the fresh interpreter is compared with the same graph as "
        "that interpreter builds it from the module source",
        "known finding F12: decorator-form datasets are not picklable (decorator_form_unpicklable)",
        "known finding F28: interface members declared by annotation / default value / function in the class body and "
        "implementation members given as functions are not picklable (excused only while known_findings.json lists "
        "F28 for C20 and the witness fails with the PicklingError described there)",
        "known finding F33: dataset(f) / overload(k)(f) copy f.__annotations__ into the Dataset, so a function annotated "
        "with an object pickle rejects gives a dataset that cannot be pickled (excused only while known_findings.json "
        "lists F33 for C20 and the witness fails in pickle.dumps, every protocol, naming the annotation object)",
    ],
)

# =============================================================================================
# code that runs inside the child interpreters (written to <tmp>/c20_support.py)
# =============================================================================================
SUPPORT_SRC = r'''
import sys, json, pickle, types, enum, threading, importlib, re, os

LockType = type(threading.Lock())
SAFE = set("abcdefghijklmnopqrstuvwxyzABCDEFGHIJKLMNOPQRSTUVWXYZ0123456789_.-")


def esc(s):
    return "".join(chr(b) if chr(b) in SAFE else "%%%02X" % b for b in s.encode("utf-8", "replace"))


def norm(msg):
    return re.sub(r" at 0x[0-9a-fA-F]+", "", msg)


FUNC_TYPES = (types.FunctionType, types.BuiltinFunctionType, type, types.MethodDescriptorType,
              types.WrapperDescriptorType, types.ModuleType)


def qual(x):
    if isinstance(x, types.ModuleType):
        return "module:" + x.__name__
    return "%s.%s" % (getattr(x, "__module__", "?"), getattr(x, "__qualname__", getattr(x, "__name__", "?")))


def lock_key(x):
    import labrea.overload as ov
    for k, v in list(ov._LOCKS.items()):
        if v is x:
            return k
    return 999999999


def walk(root):
    """abstract the object graph reachable from `root`: ids in order of first visit (pre-order)"""
    objs, ids, keep, funcs = [], {}, [], {}

    def fld(x):
        if x is None:
            return "n"
        if isinstance(x, bool):
            return "b1" if x else "b0"
        if isinstance(x, int):
            return "i%d" % x
        if isinstance(x, str):
            return "s" + esc(x)
        if isinstance(x, float):
            return "s" + esc("float:" + repr(x))
        if isinstance(x, bytes):
            return "s" + esc("bytes:" + x.hex())
        if isinstance(x, enum.Enum):
            return "s" + esc("enum:%s.%s" % (type(x).__name__, x.name))
        if isinstance(x, LockType):
            return "l%d" % lock_key(x)
        return "r%d" % visit(x)

    def visit(x):
        if id(x) in ids:
            return ids[id(x)]
        k = len(objs)
        ids[id(x)] = k
        keep.append(x)
        objs.append(None)
        if isinstance(x, FUNC_TYPES):
            objs[k] = (["F", esc(qual(x))], [])
            funcs[k] = x
        elif isinstance(x, list):
            objs[k] = (["L"], [fld(i) for i in x])
        elif isinstance(x, tuple):
            objs[k] = (["T"], [fld(i) for i in x])
        elif isinstance(x, (set, frozenset)):
            objs[k] = (["S"], [fld(i) for i in x])
        elif isinstance(x, dict):
            kids = []
            for a, b in x.items():
                kids.append(fld(a))
                kids.append(fld(b))
            objs[k] = (["D"], kids)
        elif hasattr(x, "__dict__") and isinstance(getattr(x, "__dict__"), dict):
            d = vars(x)
            attrs = list(d.keys())
            head = ["I", esc(type(x).__name__), str(len(attrs))] + [esc(a) for a in attrs]
            objs[k] = (head, None)
            kids = [fld(d[a]) for a in attrs]
            objs[k] = (head, kids)
        else:
            objs[k] = (["I", esc("opaque:" + type(x).__name__), "0"], [])
        return k

    r = visit(root)
    walk.last_objects = keep     # the live objects, index = id
    return objs, ids, funcs, r


def resolve(x):
    """what the qualified name of function/class `x` is bound to in its module (None: lookup fails)"""
    if isinstance(x, types.ModuleType):
        return x
    try:
        mod = sys.modules.get(x.__module__) or importlib.import_module(x.__module__)
        o = mod
        for part in x.__qualname__.split("."):
            if part == "<locals>":
                return None
            o = getattr(o, part)
        return o
    except Exception:
        return None


def heap_line(root):
    objs, ids, funcs, r = walk(root)
    toks = [str(r), str(len(objs))]
    for k, (head, kids) in enumerate(objs):
        toks.append(str(k))
        toks.extend(head)
        toks.append(str(len(kids)))
        toks.extend(kids)
    ns, recv, fresh = [], [], 1000000
    seen = set()
    for k, x in funcs.items():
        name = esc(qual(x))
        if name in seen:
            continue
        seen.add(name)
        y = resolve(x)
        if y is None:
            continue
        if id(y) in ids:
            ns.append((name, ids[id(y)]))
        else:
            ns.append((name, fresh))
            fresh += 1
        recv.append(name)
    toks.append(str(len(ns)))
    for n, i in ns:
        toks.extend([n, str(i)])
    toks.append(str(len(recv)))
    toks.extend(recv)
    return " ".join(toks)


def tables(root):
    """lookup tables of all Overloaded objects, in order of first visit (same format as drv_pickle)"""
    objs, ids, funcs, r = walk(root)

    def attr(head, kids, name):
        attrs = head[3:]
        for a, k in zip(attrs, kids):
            if a == name:
                return k
        return None

    def label(t):
        if t[0] == "l":
            return "lock"
        if t[0] != "r":
            return t
        head, kids = objs[int(t[1:])]
        if head[0] == "I":
            q = attr(head, kids, "__qualname__")
            nm = ""
            if q is not None and q[0] == "s":
                nm = q[1:]
            else:
                q = attr(head, kids, "key")
                if q is not None and q[0] == "s":
                    nm = q[1:]
            return head[1] + "/" + nm
        if head[0] == "F":
            return "F/" + head[1]
        return head[0]

    out = []
    for head, kids in objs:
        if head[0] == "I" and head[1] == "Overloaded":
            s = ""   # (whether `_lock` currently holds a lock is an implementation detail: not compared)
            lu = attr(head, kids, "lookup")
            if lu is not None and lu[0] == "r" and objs[int(lu[1:])][0][0] == "D":
                items = objs[int(lu[1:])][1]
                pairs = [label(items[i]) + ">" + label(items[i + 1]) for i in range(0, len(items) - 1, 2)]
                s += "[" + ",".join(pairs) + "]"
            else:
                s += "?"
            out.append(s)
    return ";".join(out)


def class_label(x):
    """name of the labrea class `x` is an instance of (user subclasses: named after their labrea base)"""
    t = type(x)
    m = getattr(t, "__module__", "") or ""
    if m == "labrea" or m.startswith("labrea."):
        return m + "." + t.__qualname__
    mixins = ("Evaluatable", "Cacheable", "Explainable", "Validatable", "Transformation")
    best = None
    for b in t.__mro__[1:]:
        bm = getattr(b, "__module__", "") or ""
        if bm.startswith("labrea."):
            if b.__qualname__ not in mixins:
                return "user subclass of " + bm + "." + b.__qualname__
            best = best or ("user subclass of " + bm + "." + b.__qualname__)
    return best


def node_classes(bundle):
    """which labrea classes have an instance inside the pickled bundle (walk of the live object graph):
    {class: [objects, is a top-level item of the bundle, reachable from a Dataset of the bundle]}"""
    from labrea.dataset import Dataset
    out = {}
    walk(bundle)
    for x in list(walk.last_objects):
        lb = class_label(x)
        if lb:
            out.setdefault(lb, [0, 0, 0])[0] += 1
    for item in bundle:
        lb = class_label(item)
        if lb:
            out.setdefault(lb, [0, 0, 0])[1] = 1
    for item in bundle:
        if isinstance(item, Dataset):
            walk(item)
            for x in list(walk.last_objects)[1:]:
                lb = class_label(x)
                if lb:
                    out.setdefault(lb, [0, 0, 0])[2] = 1
    return out


def universe():
    """every class defined in a labrea module except exceptions, enums, runtime requests and protocols"""
    import pkgutil, inspect, labrea
    from labrea.runtime import Request
    out = {}
    for mi in pkgutil.iter_modules(labrea.__path__):
        if mi.ispkg:
            continue
        try:
            m = importlib.import_module("labrea." + mi.name)
        except Exception:
            continue
        for c in list(vars(m).values()):
            if not isinstance(c, type) or c.__module__ != m.__name__:
                continue
            if issubclass(c, (BaseException, enum.Enum, Request)) or getattr(c, "_is_protocol", False):
                continue
            out[m.__name__ + "." + c.__qualname__] = "abstract" if inspect.isabstract(c) else "concrete"
    return out


def canon(v):
    if v is None or isinstance(v, (bool, int, str)):
        return v
    if isinstance(v, float):
        return repr(v)
    if isinstance(v, (list, tuple)):
        return [canon(x) for x in v]
    if isinstance(v, dict):
        return {str(k): canon(x) for k, x in sorted(v.items(), key=lambda kv: str(kv[0]))}
    if isinstance(v, (set, frozenset)):
        return sorted(json.dumps(canon(x), sort_keys=True) for x in v)
    return "<%s>" % type(v).__name__


def failure(e):
    """failure class, the chain of causes (class names, class of the reporting node) and the missing key"""
    chain, key, x, n = [], None, e, 0
    while x is not None and n < 40:
        src = getattr(x, "source", None)
        chain.append(type(x).__name__ + ("@" + type(src).__name__ if src is not None else ""))
        if key is None and hasattr(x, "key"):
            key = getattr(x, "key", None)
        x = x.__cause__
        n += 1
    return ["x", type(e).__name__, chain, key if isinstance(key, (str, int, type(None))) else repr(key)]


def cache_off(o):
    try:
        c = o.get("LABREA", {}).get("CACHE", {})
        return bool(c.get("DISABLED") or c.get("DISABLE"))
    except Exception:
        return False


def obs_one(ds, o, mod):
    res = {}
    log = getattr(mod, "EFFECT_LOG", None)
    if log is not None:
        del log[:]
    try:
        res["ev"] = ["v", canon(ds.evaluate(json.loads(json.dumps(o))))]
    except Exception as e:
        res["ev"] = failure(e)
    if log is not None:
        # effects that ran during this evaluation: with caching off always the full list; with caching on it shows
        # whether the evaluation was served from the memo that travelled with the pickled graph
        res["fx"] = canon(list(log))
    try:
        ds.validate(json.loads(json.dumps(o)))
        res["va"] = "ok"
    except Exception as e:
        res["va"] = failure(e)
    try:
        res["ks"] = sorted(ds.keys(json.loads(json.dumps(o))))
    except Exception as e:
        res["ks"] = failure(e)
    try:
        res["ex"] = sorted(ds.explain(json.loads(json.dumps(o))))
    except Exception as e:
        res["ex"] = failure(e)
    return res


def surface(bundle):
    """what every item of the bundle carries in its instance `__dict__`, read as data: the public attributes, the
    metadata taken over from a wrapped function, and whether `__wrapped__` is what its qualified name is bound to"""
    out = []
    for item in bundle:
        d = getattr(item, "__dict__", None)
        if not isinstance(d, dict):
            out.append(None)
            continue
        pub = {}
        for k, v in d.items():
            if k.startswith("_"):
                continue
            try:
                pub[k] = canon(v)
            except Exception as e:
                pub[k] = "!" + type(e).__name__
        meta = {k: canon(d[k]) for k in ("__name__", "__qualname__", "__module__", "__doc__") if k in d}
        if "__wrapped__" in d:
            w = d["__wrapped__"]
            meta["__wrapped__"] = [type(w).__name__, qual(w) if isinstance(w, FUNC_TYPES) else None,
                                   (resolve(w) is w) if isinstance(w, FUNC_TYPES) else None]
        out.append([pub, meta])
    return out


def reset_state(mod):
    """the generated module re-initialises (in place) the mutable state its functions keep on themselves"""
    f = getattr(mod, "reset_state", None)
    if f is not None:
        f()


def observe(bundle, g, mod):
    from labrea import Option, dataset
    root = bundle[-1]
    out = {}
    reset_state(mod)
    try:
        out["at"] = surface(bundle)
    except Exception as e:
        out["at"] = "!" + type(e).__name__
    try:
        out["T"] = tables(bundle)
    except Exception as e:
        out["T"] = "!" + type(e).__name__
    out["q1"] = [obs_one(root, o, mod) for o in g["optdicts"]]
    try:
        out["x0"] = sorted(root.explain())
    except Exception as e:
        out["x0"] = failure(e)
    reg = []
    for ds in bundle:
        try:
            ds.register("late", Option("LATE"))
            reg.append("ok")
        except Exception as e:
            reg.append(type(e).__name__)
    out["reg"] = reg
    # the model registers on every Overloaded object of the graph; do the same for those no dataset of
    # the bundle owns (e.g. one replaced by set_dispatch but still referenced from a lookup table)
    try:
        objs, _ids, _funcs, _r = walk(bundle)
        for k, (head, _kids) in enumerate(objs):
            if head[0] == "I" and head[1] == "Overloaded":
                ov = walk.last_objects[k]
                if "late" not in getattr(ov, "lookup", {"late": None}):
                    ov.register("late", Option("LATE"))
    except Exception as e:
        reg.append("direct:" + type(e).__name__)
    try:
        out["R"] = tables(bundle)
    except Exception as e:
        out["R"] = "!" + type(e).__name__
    out["q2"] = [obs_one(root, o, mod) for o in g["optdicts2"]]
    try:
        root.overload("late2")(dataset(mod.late_fn))
        out["ovl"] = "ok"
    except Exception as e:
        out["ovl"] = type(e).__name__
    out["q3"] = [obs_one(root, o, mod) for o in g["optdicts3"]]
    return out


def main_a(specfile, picklefile):
    spec = json.load(open(specfile))
    mod = importlib.import_module(spec["module"])
    protos = spec["protocols"]
    results, blobs = {}, {}
    # which library parts pickle on their own (precondition "picklable parts")
    parts, part_errors = {}, {}
    for name, obj in getattr(mod, "PARTS", {}).items():
        try:
            if obj is None:
                raise ValueError("could not be built")
            pickle.loads(pickle.dumps(obj))
            parts[name] = True
        except Exception as e:
            parts[name] = False
            part_errors[name] = type(e).__name__ + ": " + norm(str(e))[:200]
    for g in spec["graphs"]:
        gid = g["gid"]
        res = {"gid": gid, "dump_err": {}, "load_err": {}, "inproc": {}}
        results[gid] = res
        if gid not in mod.GRAPHS:
            res["build_err"] = norm(str(getattr(mod, "GRAPH_ERRORS", {}).get(gid, "missing")))
            blobs[gid] = {}
            continue
        bundle = mod.GRAPHS[gid]
        root = bundle[-1]
        reset_state(mod)
        for i in g["warm"]:
            try:
                root.evaluate(json.loads(json.dumps(g["optdicts"][i])))
            except Exception:
                pass
        blobs[gid] = {}
        for p in protos:
            try:
                blobs[gid][str(p)] = pickle.dumps(bundle, p)
            except Exception as e:
                res["dump_err"][str(p)] = [type(e).__name__, norm(str(e))]
        try:
            res["heap"] = heap_line(bundle)
        except Exception as e:
            res["heap_err"] = [type(e).__name__, norm(str(e))]
        try:
            res["classes"] = node_classes(bundle)
        except Exception as e:
            res["classes_err"] = [type(e).__name__, norm(str(e))]
    tmp = picklefile + ".tmp"
    with open(tmp, "wb") as f:
        pickle.dump(blobs, f)
    os.replace(tmp, picklefile)
    try:
        uni = universe()
    except Exception as e:
        uni = {"!": type(e).__name__ + ": " + norm(str(e))}
    print(json.dumps({"parts": parts, "part_errors": part_errors, "universe": uni}))
    for g in spec["graphs"]:
        gid = g["gid"]
        res = results[gid]
        if "build_err" in res:
            print(json.dumps(res))
            continue
        for p, b in blobs[gid].items():
            try:
                cp = pickle.loads(b)
            except Exception as e:
                res["load_err"][p] = [type(e).__name__, norm(str(e))]
                continue
            res["inproc"][p] = observe(cp, g, mod)
        res["orig"] = observe(mod.GRAPHS[gid], g, mod)
        print(json.dumps(res))
        sys.stdout.flush()


def main_b(specfile, picklefile):
    spec = json.load(open(specfile))
    assert spec["module"] not in sys.modules
    with open(picklefile, "rb") as f:
        blobs = pickle.load(f)
    mod = None
    for g in spec["graphs"]:
        gid = g["gid"]
        res = {"gid": gid, "load_err": {}, "fresh": {}}
        for p, b in blobs.get(gid, {}).items():
            try:
                cp = pickle.loads(b)
            except Exception as e:
                res["load_err"][p] = [type(e).__name__, norm(str(e))]
                continue
            if mod is None:
                mod = sys.modules.get(spec["module"]) or importlib.import_module(spec["module"])
            res["fresh"][p] = observe(cp, g, mod)
        if g.get("own_orig"):
            # the same graph as THIS process builds it from the module source (functions whose state depends on the
            # process they are imported into): what a copy arriving here has to behave like
            try:
                if mod is None:
                    mod = sys.modules.get(spec["module"]) or importlib.import_module(spec["module"])
                res["own"] = observe(mod.GRAPHS[gid], g, mod)
            except Exception as e:
                res["own_err"] = [type(e).__name__, norm(str(e))]
        print(json.dumps(res))
        sys.stdout.flush()


if __name__ == "__main__":
    if sys.argv[1] == "A":
        main_a(sys.argv[2], sys.argv[3])
    else:
        main_b(sys.argv[2], sys.argv[3])
'''

# =============================================================================================
# module source generation
# =============================================================================================
MODULE_PRELUDE = '''\
"""generated by /verif/harness/props/C20.py — dataset graphs for the pickle round-trip check"""
from labrea import Option, dataset, abstractdataset, pipeline_step
from labrea.cache import MemoryCache, NoCache
from labrea.computation import CallbackEffect
from labrea.types import Value
import labrea.functions as F

EFFECT_LOG = []


def cb_wrap(x):
    return ["cb", x]


def cb_tag(x, tag="-"):
    return ["tag", tag, x]


def step_tag(x, y=Option("Y", 2)):
    return ["step", y, x]


ps_tag = pipeline_step(step_tag)


def eff_log(x):
    EFFECT_LOG.append(["eff_log", x])


def eff_check(x):
    if isinstance(x, list) and 3 in x:
        raise ValueError("eff_check")


def eff_tagged(x, tag="-"):
    EFFECT_LOG.append(["eff_tagged", tag, x])


def late_fn(z=Option("LATE2", "z")):
    return ["late_fn", z]


# ---- shared by the wrapper / combinator family (graphs w*): module-level, importable helpers
import json
import logging as _logging
import types as _types
from typing import List, Optional
from labrea import (AllOptions, Coalesce, Iter, Map, Overloaded, Switch, Template, WithDefaultOptions, WithOptions,
                    cached, case, coalesce, datasetclass, evaluatable_dict, evaluatable_list, evaluatable_set,
                    evaluatable_tuple, implements, interface, switch)
from labrea.application import FunctionApplication, PartialApplication
from labrea.cache import Cache, Cached, CacheGetFailure
from labrea.computation import ChainedEffect, Computation
from labrea.logging import LogEffect, Logged
from labrea.pipeline import Pipeline, PipelineStep
from labrea.types import Apply, Bind


class _WLogHandler(_logging.Handler):
    def emit(self, record):
        EFFECT_LOG.append(["log", record.levelno, record.getMessage()])


_wlog = _logging.getLogger("verif.c20")
_wlog.setLevel(_logging.DEBUG)
_wlog.propagate = False
if not any(isinstance(_h, _WLogHandler) for _h in _wlog.handlers):
    _wlog.addHandler(_WLogHandler())


class WDictCache(Cache):
    """a user cache: entries live in the instance (so they travel with the pickle), every hit / store is logged"""

    def __init__(self, name):
        self.name = name
        self.store = {}

    def get(self, evaluatable, options):
        k = evaluatable.fingerprint(options)
        if k not in self.store:
            raise CacheGetFailure(evaluatable, options, self)
        EFFECT_LOG.append(["cache_get", self.name])
        return self.store[k]

    def set(self, evaluatable, options, value):
        EFFECT_LOG.append(["cache_set", self.name])
        self.store[evaluatable.fingerprint(options)] = value


def w_src(a=Option("A"), b=Option("B", 3)):
    EFFECT_LOG.append(["ran", "w_src", a, b])
    return ["w_src", a, b]


def w_one(a=Option("A")):
    EFFECT_LOG.append(["ran", "w_one", a])
    return ["w_one", a]


def w_alt(c=Option("C", 0)):
    EFFECT_LOG.append(["ran", "w_alt", c])
    return ["w_alt", c]


def w_nothing():
    raise NotImplementedError("abstract")


def w_step(x, y=Option("Y", 2)):
    return ["w_step", y, x]


def w_wrap(x):
    return ["w_wrap", x]


def w_small(x):
    return isinstance(x, int) and not isinstance(x, bool) and x < 2


def w_is_str(x):
    return isinstance(x, str)


def w_less(x, than=0):
    return x < than


def w_pick(x):
    return Option("B", 3) if w_small(x) else Option("C", 0)


def w_eleven():
    return 11


def w_show(x):
    """a comparable picture of whatever a node evaluates to (iterators, callables, instances of dataset classes)"""
    if x is None or isinstance(x, (str, int, float, bool)):
        return x
    if isinstance(x, (list, tuple)):
        return [w_show(i) for i in x]
    if isinstance(x, dict):
        return {str(k): w_show(v) for k, v in x.items()}
    if isinstance(x, (set, frozenset)):
        return sorted(repr(w_show(i)) for i in x)
    if isinstance(x, type):
        return "class:" + x.__name__
    if hasattr(x, "__next__"):
        return ["iterator"] + [w_show(i) for i in x]
    if callable(x):
        try:
            return ["callable", w_show(x(1))]
        except Exception as e:
            return ["callable-raises", type(e).__name__]
    if hasattr(x, "__dict__"):
        return [type(x).__name__, {k: w_show(v) for k, v in sorted(vars(x).items())}]
    return "<%s>" % type(x).__name__


def w_flat(x):
    """text without braces (a template parameter holding braces would be read as template keys again)"""
    return json.dumps(w_show(x), sort_keys=True).replace("{", "(").replace("}", ")")


def _w_namespace():
    @Option.namespace("WNS")
    class _WNS:
        A: int
        B = 3
        C = Option.auto(default=4, doc="auto") >> w_wrap
        D = Option.auto(default="d-{WNS.A}", doc="plain auto", type=str)

        class SUB:
            X = "x-{WNS.A}"
    return _WNS


PARTS = {}
for _name, _mk in [
    ("cb_wrap", lambda: cb_wrap),
    ("map_wrap_list", lambda: F.map(cb_wrap) + list),
    ("ps_tag", lambda: ps_tag),
    ("partial_tag", lambda: F.partial(cb_tag, tag=Option("TAG", "t"))),
    ("get0", lambda: F.get(0)),
    ("eff_log", lambda: eff_log),
    ("eff_check", lambda: eff_check),
    ("eff_tagged", lambda: F.partial(eff_tagged, tag=Option("TAG", "t"))),
    ("cbeffect", lambda: CallbackEffect(eff_log)),
]:
    try:
        PARTS[_name] = _mk()
    except Exception:
        PARTS[_name] = None
del _name, _mk

GRAPHS = {}
GRAPH_ERRORS = {}
'''

CALLBACKS = {
    "cb_wrap": "cb_wrap",
    "map_wrap_list": "F.map(cb_wrap) + list",
    "ps_tag": "ps_tag",
    "partial_tag": "F.partial(cb_tag, tag=Option('TAG', 't'))",
    "get0": "F.get(0)",
}
EFFECTS = {
    "eff_log": "eff_log",
    "eff_check": "eff_check",
    "eff_tagged": "F.partial(eff_tagged, tag=Option('TAG', 't'))",
    "cbeffect": "CallbackEffect(eff_log)",
}


# ---------------------------------------------------------------------------------------------
# function objects (graphs f*): the callables handed to labrea as realistic function OBJECTS
# ---------------------------------------------------------------------------------------------
# A kind gives a callable for each role it can play:
#   src  - called without arguments it reads Options through its defaults: body of `dataset(f)`, overload
#          implementation, `FunctionApplication.lift(f)`
#   un   - one positional argument: callback, effect, pipeline step, `apply` / `>>` argument
#   bind - one positional argument, returns an Evaluatable: `bind` argument
#   fac  - no argument: Option `default_factory`
#   pred - one positional argument, truth value: Option `domain`, `case(...).when(pred, ...)`
FO_ROLES = ["src", "un", "bind", "fac", "pred"]
FO_SIGS = {"src": 'x{ann}=Option("A")', "un": "x{ann}", "bind": "x", "fac": "", "pred": "x"}

# kinds written as `def` (+ what is done to the function object afterwards).  `$F` is the function's own module-level
# name.  body: lines that set `r` (what the function reads from its own attributes); after: lines run after the `def`
# (attributes set after definition); deco: decorator lines; ann / ret: annotations; doc: docstring; sigs: signatures per
# role; state: (attribute, initial value) of mutable state `reset_state()` re-initialises in place; procdep: the
# attribute is initialised differently in the pickling and in the receiving process (environment variable
# VERIF_C20_PROC); reverse_in_receiver: the functions of the kind are defined in the opposite order there.
FO_DEF_KINDS: List[Dict[str, Any]] = [
    {"kind": "attribute_lock", "after": ["$F.lock = threading.Lock()"],
     "body": ["with $F.lock:", "    r = 'guarded'"]},
    {"kind": "attribute_rlock_set_by_decorator", "deco": ["@fo_guarded"],
     "body": ["with $F.guard:", "    r = list($F.tags)"]},
    {"kind": "attribute_lambda", "after": ["$F.key = lambda v: [v]"], "body": ["r = $F.key(0)"]},
    {"kind": "attribute_generator", "after": ["$F.ids = (i for i in range(1000))"],
     "body": ["r = type($F.ids).__name__"]},
    {"kind": "attribute_module", "after": ["$F.codec = json"], "body": ["r = $F.codec.dumps([1])"]},
    {"kind": "attribute_open_file", "after": ["$F.sink = open(os.devnull, 'w')"],
     "body": ["$F.sink.write('x')", "r = $F.sink.name == os.devnull"]},
    {"kind": "attribute_local_class", "after": ["$F.Row = _fo_local_class()"], "body": ["r = $F.Row(2).double()"]},
    {"kind": "attribute_closure", "after": ["$F.add = _fo_closure(5)"], "body": ["r = $F.add(1)"]},
    {"kind": "attribute_call_counter_dict", "after": ["$F.calls = {'n': 0, 'last': None}"],
     "state": ("calls", {"n": 0, "last": None}),
     "body": ["$F.calls['n'] += 1", "$F.calls['last'] = '$F'", "r = $F.calls['n']"]},
    {"kind": "attribute_seen_list", "after": ["$F.seen = []"], "state": ("seen", []),
     "body": ["$F.seen.append(len($F.seen))", "r = list($F.seen)"]},
    {"kind": "attribute_registry_from_environment", "procdep": True,
     "after": ["$F.registry = {'proc': _FO_PROC, 'handlers': ['h1'] if _FO_PROC == 'A' else ['h2', 'h1']}"],
     "body": ["r = [$F.registry['proc'], list($F.registry['handlers'])]"]},
    {"kind": "attribute_slot_by_definition_order", "procdep": True, "reverse_in_receiver": True,
     "after": ["fo_plugin($F)"], "body": ["r = [$F.slot['index'], list($F.slot['before'])]"]},
    {"kind": "wrapped_chain", "deco": ["@fo_traced", "@fo_traced"],
     "body": ["r = [$F.__wrapped__.__name__, hasattr($F.__wrapped__, '__wrapped__'), $F.traced]"]},
    {"kind": "wrapped_chain_carrying_lock", "after": ["$F.lock = threading.Lock()", "$F = fo_traced($F)"],
     "body": ["with $F.lock:", "    r = $F.__wrapped__.lock is $F.lock"]},
    {"kind": "kwdefaults",
     "sigs": {"src": '*, x=Option("A"), scale=2', "un": "x, *, scale=2", "bind": "x, *, scale=2", "fac": "*, scale=2",
              "pred": "x, *, scale=2"},
     "body": ["r = [scale, sorted($F.__kwdefaults__)]"]},
    {"kind": "docstring_and_forward_annotations", "ann": ': "typing.Optional[FoService]"', "ret": ' -> "typing.List[int]"',
     "doc": ['"""Reads option {A} (100 %s of the time) - "quoted", \'single\', back\\\\slash, na\\u00efve \\u00fcn\\u00efcode \\u2014 escaped.',
             "", "    >>> $F(1)[0]", "    '$F'", '    """'],
     "body": ["r = [len($F.__doc__), sorted($F.__annotations__)]"]},
    # annotations whose objects pickle cannot serialise: `dataset(f)` copies `__annotations__` onto the Dataset, where
    # it is pickled by value: witnesses of known finding F33 ("f33": qualified name of the annotation object)
    {"kind": "annotations_with_lambda_metadata", "ann": ": typing.Annotated[int, lambda v: v > 0]",
     "ret": " -> typing.List[typing.Any]", "body": ["r = sorted($F.__annotations__)"], "f33": "<lambda>"},
    {"kind": "annotations_with_local_class", "ann": ": _FO_LOCAL_ROW", "ret": " -> _FO_LOCAL_ROW",
     "body": ["r = sorted($F.__annotations__)"], "f33": "_fo_local_class.<locals>.Row"},
]

# kinds that are not a `def` of their own: expression per role ("key": the option the node reads)
FO_EXPR_KINDS: List[Dict[str, Any]] = [
    {"kind": "functools_partial", "roles": {"src": "fo_partial", "un": "fo_partial_on", "bind": "fo_partial_pick",
                                            "fac": "fo_partial_make", "pred": "fo_partial_ok"}},
    {"kind": "functools_partial_with_attribute", "roles": {"src": "fo_partial_noted", "un": "fo_partial_noted_on"}},
    {"kind": "functools_partial_with_lock_attribute", "roles": {"src": "fo_partial_locked", "un": "fo_partial_locked_on"}},
    {"kind": "callable_instance", "roles": {"src": "fo_callable", "un": "fo_callable_on", "bind": "fo_callable_pick",
                                            "fac": "fo_callable_make", "pred": "fo_callable_ok"}},
    {"kind": "callable_instance_holding_lock", "roles": {"src": "fo_callable_locked", "un": "fo_callable_locked_on"}},
    {"kind": "bound_method_of_singleton", "roles": {"src": "fo_service.run", "un": "fo_service.run_on",
                                                    "bind": "fo_service.pick", "fac": "fo_service.make",
                                                    "pred": "fo_service.accept"}},
    {"kind": "staticmethod_through_class", "roles": {"src": "FoService.s_run", "un": "FoService.s_run_on",
                                                     "bind": "FoService.s_pick", "fac": "FoService.s_make",
                                                     "pred": "FoService.s_accept"}},
    {"kind": "classmethod_through_class", "roles": {"src": "FoService.c_run", "un": "FoService.c_run_on",
                                                    "bind": "FoService.c_pick", "fac": "FoService.c_make",
                                                    "pred": "FoService.c_accept"}},
    {"kind": "builtin", "key": "AS", "roles": {"un": "len", "fac": "list", "pred": "bool"}},
    {"kind": "operator_object", "key": "AS", "roles": {"un": "operator.itemgetter(0)", "pred": "operator.truth"}},
    {"kind": "standard_library_function", "roles": {"src": "platform.python_implementation", "un": "pprint.pformat",
                                                    "fac": "collections.OrderedDict", "pred": "math.isfinite"}},
]

FO_HELPERS = '''\
# ---- function objects (graphs f*): callables that carry state, metadata and wrappers, as real code has them
import collections
import functools
import math
import operator
import os
import platform
import pprint
import threading
import typing

_FO_PROC = os.environ.get("VERIF_C20_PROC", "A")   # "A": the process that pickles, "B": the one that receives
_FO_STATE = []
FO_PLUGINS = []
FO_MARKED = []


def reset_state():
    """re-initialise, in place, the mutable state functions keep on themselves (run before every observation)"""
    for cur, init in _FO_STATE:
        if isinstance(cur, dict):
            cur.clear()
            cur.update(json.loads(json.dumps(init)))
        else:
            cur[:] = json.loads(json.dumps(init))


def fo_guarded(fn):
    """a decorator that returns the same function, marked and given a lock"""
    fn.guard = threading.RLock()
    fn.tags = ["guarded", fn.__name__]
    FO_MARKED.append(fn.__name__)
    return fn


def fo_traced(fn):
    @functools.wraps(fn)
    def wrapper(*args, **kwargs):
        return fn(*args, **kwargs)
    wrapper.traced = getattr(fn, "traced", 0) + 1
    return wrapper


def fo_plugin(fn):
    """registration in order of definition: the slot depends on what was defined before"""
    fn.slot = {"index": len(FO_PLUGINS), "before": list(FO_PLUGINS)}
    FO_PLUGINS.append(fn.__name__)
    return fn


def _fo_local_class():
    class Row:
        def __init__(self, v):
            self.v = v

        def double(self):
            return self.v * 2
    return Row


_FO_LOCAL_ROW = _fo_local_class()


def _fo_closure(k):
    def add(v):
        return v + k
    return add


def fo_two(tag, x=Option("A")):
    EFFECT_LOG.append(["ran", "fo_two", tag, w_show(x)])
    return ["fo_two", tag, w_show(x)]


def fo_two_on(tag, x):
    EFFECT_LOG.append(["ran", "fo_two_on", tag, w_show(x)])
    return ["fo_two_on", tag, w_show(x)]


def fo_two_pick(tag, x):
    return Option("B", 3) if x == 1 else Option("C", 0)


def fo_two_ok(bad, x):
    return x != bad


fo_partial = functools.partial(fo_two, "p")
fo_partial_on = functools.partial(fo_two_on, "p")
fo_partial_pick = functools.partial(fo_two_pick, "p")
fo_partial_make = functools.partial(fo_two, "m", 0)
fo_partial_ok = functools.partial(fo_two_ok, 2)
fo_partial_noted = functools.partial(fo_two, "n")
fo_partial_noted.note = {"owner": "verif", "retries": [1, 2]}
fo_partial_noted_on = functools.partial(fo_two_on, "n")
fo_partial_noted_on.note = fo_partial_noted.note
fo_partial_locked = functools.partial(fo_two, "l")
fo_partial_locked.lock = threading.Lock()
fo_partial_locked_on = functools.partial(fo_two_on, "l")
fo_partial_locked_on.lock = fo_partial_locked.lock


class FoCallable:
    """instances are callable; module-level instances are handed to labrea"""

    def __init__(self, tag, mode):
        self.tag = tag
        self.mode = mode

    def __call__(self, x=Option("A")):
        if self.mode == "pick":
            return Option("B", 3) if x == 1 else Option("C", 0)
        if self.mode == "ok":
            return x != 2
        if self.mode == "make":
            return ["FoCallable", self.tag]
        EFFECT_LOG.append(["ran", "FoCallable", self.tag, w_show(x)])
        return ["FoCallable", self.tag, w_show(x)]


class FoStepCallable(FoCallable):
    def __call__(self, x):
        return FoCallable.__call__(self, x)


class FoLockedCallable(FoCallable):
    def __init__(self, tag, mode):
        FoCallable.__init__(self, tag, mode)
        self.lock = threading.Lock()


fo_callable = FoCallable("c", "run")
fo_callable_pick = FoCallable("c", "pick")
fo_callable_make = FoCallable("c", "make")
fo_callable_ok = FoCallable("c", "ok")
fo_callable_on = FoStepCallable("c", "run")
fo_callable_locked = FoLockedCallable("k", "run")
fo_callable_locked_on = FoStepCallable("k", "run")
fo_callable_locked_on.lock = fo_callable_locked.lock


class FoService:
    """a module-level singleton whose methods are handed to labrea; static / class methods through the class"""
    name = "FoService"

    def __init__(self, tag):
        self.tag = tag

    def run(self, x=Option("A")):
        EFFECT_LOG.append(["ran", "FoService.run", self.tag, w_show(x)])
        return ["FoService.run", self.tag, w_show(x)]

    def run_on(self, x):
        EFFECT_LOG.append(["ran", "FoService.run_on", self.tag, w_show(x)])
        return ["FoService.run_on", self.tag, w_show(x)]

    def pick(self, x):
        return Option("B", 3) if x == 1 else Option("C", 0)

    def make(self):
        return ["FoService.make", self.tag]

    def accept(self, x):
        return x != 2

    @staticmethod
    def s_run(x=Option("A")):
        EFFECT_LOG.append(["ran", "FoService.s_run", w_show(x)])
        return ["FoService.s_run", w_show(x)]

    @staticmethod
    def s_run_on(x):
        EFFECT_LOG.append(["ran", "FoService.s_run_on", w_show(x)])
        return ["FoService.s_run_on", w_show(x)]

    @staticmethod
    def s_pick(x):
        return Option("B", 3) if x == 1 else Option("C", 0)

    @staticmethod
    def s_make():
        return ["FoService.s_make"]

    @staticmethod
    def s_accept(x):
        return x != 2

    @classmethod
    def c_run(cls, x=Option("A")):
        EFFECT_LOG.append(["ran", "FoService.c_run", cls.name, w_show(x)])
        return ["FoService.c_run", cls.name, w_show(x)]

    @classmethod
    def c_run_on(cls, x):
        EFFECT_LOG.append(["ran", "FoService.c_run_on", cls.name, w_show(x)])
        return ["FoService.c_run_on", cls.name, w_show(x)]

    @classmethod
    def c_pick(cls, x):
        return Option("B", 3) if x == 1 else Option("C", 0)

    @classmethod
    def c_make(cls):
        return ["FoService.c_make", cls.name]

    @classmethod
    def c_accept(cls, x):
        return x != 2


fo_service = FoService("s")
'''


def fo_name(kind: str, role: str) -> str:
    return f"fo_{kind}" if role == "src" else f"fo_{kind}_{role}"


def fo_def_lines(k: Dict[str, Any], role: str) -> List[str]:
    """source of the function of def-kind `k` that plays `role`"""
    name = fo_name(k["kind"], role)
    sig = (k.get("sigs") or FO_SIGS)[role].replace("{ann}", k.get("ann", ""))
    out = list(k.get("deco", []))
    out.append(f"def {name}({sig}){k.get('ret', '') if role in ('src', 'un') else ''}:")
    out.extend("    " + l if l else "" for l in k.get("doc") or [])
    out.extend("    " + l for l in k["body"])
    if role in ("src", "un"):
        out.append(f"    EFFECT_LOG.append(['ran', '{name}', w_show(x)])")
        out.append(f"    return ['{name}', w_show(x), r]")
    elif role == "bind":
        out.append("    return Option('B', 3) if x == 1 else Option('C', 0)")
    elif role == "fac":
        out.append(f"    return ['{name}', r]")
    else:
        out.append("    return x != 2")
    out.extend(["", ""])
    if k.get("after"):
        out.extend(k["after"])
        if k.get("state"):
            out.append(f"_FO_STATE.append(($F.{k['state'][0]}, {k['state'][1]!r}))")
        out.extend(["", ""])
    return [l.replace("$F", name) for l in out]


def fo_kind_src(k: Dict[str, Any]) -> List[str]:
    if "roles" in k:
        return []
    blocks = [fo_def_lines(k, role) for role in FO_ROLES]
    if not k.get("reverse_in_receiver"):
        return [l for b in blocks for l in b]
    out = ["if _FO_PROC != 'B':"]
    out.extend("    " + l if l else "" for b in blocks for l in b)
    out.append("else:")
    out.extend("    " + l if l else "" for b in reversed(blocks) for l in b)
    out.extend(["", ""])
    return out


def fo_roles(k: Dict[str, Any]) -> Dict[str, str]:
    return k["roles"] if "roles" in k else {role: fo_name(k["kind"], role) for role in FO_ROLES}


FO_KINDS: List[Dict[str, Any]] = FO_DEF_KINDS + FO_EXPR_KINDS
FO_SRC = FO_HELPERS + "\n\n" + "\n".join(l for k in FO_DEF_KINDS for l in fo_kind_src(k))
FO_PARTS_SRC = "".join(f"    ({'fo:' + k['kind'] + ':' + role!r}, lambda: {expr}),\n"
                       for k in FO_KINDS for role, expr in fo_roles(k).items())
_m1, _m2 = "PARTS = {}\n", '    ("cbeffect", lambda: CallbackEffect(eff_log)),\n'
assert MODULE_PRELUDE.count(_m1) == 1 and MODULE_PRELUDE.count(_m2) == 1
MODULE_PRELUDE = MODULE_PRELUDE.replace(_m1, FO_SRC + "\n" + _m1).replace(_m2, _m2 + FO_PARTS_SRC)

# Positions: the function-taking places of the API, each with the role it needs.  `dataset` positions make the root
# dataset from the callable, `callback` positions hang it on a dataset, `stored` positions build a node that is stored
# as an argument default of an explicit-form root dataset.  {F} is the callable, {OPT} the option the node reads.
FO_POSITIONS: List[Tuple[str, str, str]] = [
    ("dataset_body", "src", "dataset"),
    ("dataset_body_with_keywords", "src", "dataset"),
    ("overload_implementation", "src", "dataset"),
    ("callback", "un", "callback"),
    ("effect", "un", "callback"),
    ("pipeline_step", "un", "callback"),
    ("lift", "src", "FunctionApplication.lift({F})"),
    ("apply", "un", "{OPT}.apply({F})"),
    ("rshift", "un", "{OPT} >> {F}"),
    ("bind", "bind", "{OPT}.bind({F})"),
    ("case_when", "pred", "case({OPT}).when({F}, 'yes').otherwise('no')"),
    ("option_default_factory", "fac", "Option('ZZ', default_factory={F})"),
    ("option_domain", "pred", "Option({KEY}, domain={F})"),
]
FO_POSITION = {p: (role, how) for p, role, how in FO_POSITIONS}
# every run: the body position on its own, the others a few to a graph (every position of every kind is in one graph);
# thorough tier: also one graph per position
FO_GROUPS: List[List[str]] = [
    ["dataset_body"],
    ["dataset_body_with_keywords", "overload_implementation"],
    ["callback", "effect", "pipeline_step"],
    ["lift", "apply", "rshift", "bind", "case_when"],
    ["option_default_factory", "option_domain"],
]
# what labrea refuses to build (not a pickling matter): left out of the graphs, listed in the evidence
FO_NOT_BUILDABLE = {("operator_object", "pipeline_step"): "ValueError: callable operator.itemgetter(0) is not supported "
                                                          "by signature (inspect.signature, in PartialApplication.lift)"}


def fo_graph_src(positions: List[str], roles: Dict[str, str], key: str) -> Tuple[List[str], List[str]]:
    """(module-level lines, bundle) of one graph that uses the callables of `roles` in `positions` (all of one family:
    dataset / callback / stored); `$` is the graph's name prefix, `$R` the root"""
    f = {p: roles[FO_POSITION[p][0]] for p in positions}
    family = {"dataset": "dataset", "callback": "callback"}.get(FO_POSITION[positions[0]][1], "stored")
    if family == "dataset":
        if "dataset_body" in f:
            return [f"$R = dataset({f['dataset_body']})"], ["$R"]
        if "dataset_body_with_keywords" in f:
            lines = [f"$R = dataset({f['dataset_body_with_keywords']}, dispatch=Option('K', 'none'), callback=w_wrap, "
                     "effects=[eff_log], default_options={'A': 9})"]
        else:
            lines = ["$R = dataset(w_one, dispatch='K')"]
        if "overload_implementation" in f:
            return lines + [f"$X = $R.overload('one')({f['overload_implementation']})",
                            f"$R.register('two', dataset({f['overload_implementation']}))"], ["$X", "$R"]
        return lines + ["$R.register('two', Option('C', 0))"], ["$R"]
    if family == "callback":
        lines, bundle, base = [], [], "w_one"
        if "pipeline_step" in f:
            lines.append(f"$X = pipeline_step({f['pipeline_step']})")
            bundle.append("$X")
            if len(f) == 1:
                return lines + ["$R = dataset(w_one, callback=$X + w_wrap)"], bundle + ["$R"]
            lines.append("$Y = dataset(w_one, callback=$X + w_wrap)")
            bundle.append("$Y")
            base = "$Y"
        if "effect" in f:
            # (every use of the callable is handed a list, so that `len` / `itemgetter(0)` have something to work on)
            if len(f) == 1 or (len(f) == 2 and "callback" in f):
                kw = f", callback={f['callback']}" if "callback" in f else ""
                return lines + [f"$R = dataset.nocache({base}, effects=[{f['effect']}]{kw})"], bundle + ["$R"]
            lines.append(f"$Z = dataset.nocache(w_one, effects=[{f['effect']}])")
            bundle.append("$Z")
            base = f"evaluatable_list({base}, $Z)"
        return lines + [f"$R = dataset.nocache({base}, callback={f['callback']})"], bundle + ["$R"]
    lines, names = [], []
    for i, p in enumerate(positions):
        expr = FO_POSITION[p][1].replace("{F}", f[p]).replace("{OPT}", f"Option({key!r})").replace("{KEY}", repr(key))
        lines.append(f"$N{i} = {expr}")
        names.append(f"$N{i}")
    lines += ["def $R_fn(" + ", ".join(f"v{i}={n}" for i, n in enumerate(names)) + "):",
              "    EFFECT_LOG.append(['ran', 'R'])",
              "    return ['R', " + ", ".join(f"w_show(v{i})" for i in range(len(names))) + "]",
              "$R = dataset.nocache($R_fn)"]
    return lines, names + ["$R"]


def fo_optdicts() -> List[Dict[str, Any]]:
    full = {"A": 1, "B": 2, "C": 4, "K": "one", "M": "two", "Y": 5, "AS": [1, 2]}
    other = dict(full, A=2, K="two", AS=[])
    off = dict(full, LABREA={"CACHE": {"DISABLED": True}})
    return [full, other, {}, off]


def functions(prefix: str = "f", fine: bool = False) -> List[Dict[str, Any]]:
    """every kind of function object in every function-taking position (FO_GROUPS: the positions a few to a graph; with
    `fine` also one graph per position).  Graphs of kinds whose state depends on the process are not evaluated before
    pickling, and what a copy does in the fresh interpreter is compared with the same graph as that interpreter builds
    it (`own_orig`); all others are evaluated once before pickling (a memo travels) and compared with the original of
    the pickling process."""
    gs: List[Dict[str, Any]] = []
    od = fo_optdicts()
    groups = FO_GROUPS + ([[p] for grp in FO_GROUPS if len(grp) > 1 for p in grp] if fine else [])
    for k in FO_KINDS:
        roles = fo_roles(k)
        for grp in groups:
            positions = [p for p in grp if FO_POSITION[p][0] in roles and (k["kind"], p) not in FO_NOT_BUILDABLE]
            if not positions:
                continue
            gid = f"{prefix}{len(gs)}"
            pre = gid + "_"
            lines, bundle = fo_graph_src(positions, roles, k.get("key", "A"))
            used = sorted({FO_POSITION[p][0] for p in positions})
            node = {"name": pre + "R", "kind": "expr", "form": "explicit", "lines": [l.replace("$", pre) for l in lines],
                    "uses": [f"fo:{k['kind']}:{role}" for role in used]}
            g = finish_graph(gid, [node], od, [] if k.get("procdep") else [0],
                             f"function object {k['kind']} as {' + '.join(positions)}")
            g["bundle"] = [b.replace("$", pre) for b in bundle]
            g["optdicts2"], g["optdicts3"] = g["optdicts2"][:1], g["optdicts3"][:1]
            g["fo_kind"], g["fo_positions"] = k["kind"], positions
            if k.get("procdep"):
                g["own_orig"] = True
            if k.get("f33") and any(FO_POSITION[p][1] == "dataset" for p in positions):
                # witness of known finding F33: a Dataset is built from the annotated function
                node["f33_annotation"] = [k["f33"]]
            if "roles" not in k:
                g["fo_source"] = [l for role in used for l in fo_def_lines(k, role) if l]
            gs.append(g)
    return gs


def arg_src(a: Dict[str, Any]) -> str:
    if "opt" in a:
        if "default" in a:
            return f"Option({a['opt']!r}, {a['default']!r})"
        return f"Option({a['opt']!r})"
    if "ds" in a:
        return a["ds"]
    if "val" in a:
        return f"Value({a['val']!r})"
    return repr(a["const"])


def disp_src(d: Any) -> str:
    return repr(d) if isinstance(d, str) else arg_src(d)


def kw_src(kw: Dict[str, Any]) -> str:
    parts = []
    if kw.get("dispatch") is not None:
        parts.append("dispatch=" + disp_src(kw["dispatch"]))
    if kw.get("options"):
        parts.append(f"options={kw['options']!r}")
    if kw.get("default_options"):
        parts.append(f"default_options={kw['default_options']!r}")
    if kw.get("callback"):
        parts.append("callback=" + CALLBACKS[kw["callback"]])
    if kw.get("effects"):
        parts.append("effects=[" + ", ".join(EFFECTS[e] for e in kw["effects"]) + "]")
    if kw.get("defaults"):
        parts.append("defaults={" + ", ".join(f"{k!r}: {arg_src(v)}" for k, v in kw["defaults"].items()) + "}")
    return ", ".join(parts)


def node_src(n: Dict[str, Any]) -> List[str]:
    name, kind = n["name"], n["kind"]
    out: List[str] = []
    kw = n.get("kw", {})
    if kind == "expr":
        # wrapper / combinator family: the node is defined by literal module-level source lines
        out.extend(n["lines"])
    elif kind == "deriv":
        out.append(f"{name} = {n['base']}.{n['how']}({n['opts']!r})")
    elif kind == "evalds":
        k = kw_src(kw)
        out.append(f"{name} = dataset({arg_src(n['expr'])}{', ' + k if k else ''})")
    else:
        params = ", ".join(f"{p}={arg_src(a)}" for p, a in n.get("params", []))
        pnames = [p for p, _ in n.get("params", [])]
        body = []
        if n.get("body") == "raise3" and pnames:
            body.append(f"    if {pnames[0]} == 3:")
            body.append("        raise ValueError('boom')")
        body.append("    return [" + ", ".join([repr(name)] + pnames) + "]")
        factory = "abstractdataset" if kind == "abstract" else "dataset"
        if kw.get("nocache"):
            factory += ".nocache"
        k = kw_src(kw)
        ov = n.get("overload_of")
        if n["form"] == "decorator":
            if ov:
                out.append(f"@{ov['base']}.overload({ov['keys']!r})")
            elif k:
                out.append(f"@{factory}({k})")
            else:
                out.append(f"@{factory}")
            out.append(f"def {name}({params}):")
            out.extend(body)
        else:
            out.append(f"def _{name}_fn({params}):")
            out.extend(body)
            if ov:
                out.append(f"{name} = {ov['base']}.overload({ov['keys']!r})(_{name}_fn)")
            else:
                out.append(f"{name} = {factory}(_{name}_fn{', ' + k if k else ''})")
    for r in n.get("registers", []):
        if r["via"] == "register":
            for key in r["keys"]:
                out.append(f"{name}.register({key!r}, {arg_src(r['target'])})")
        else:
            keys = r["keys"] if len(r["keys"]) > 1 else r["keys"][0]
            out.append(f"{name}.overload({keys!r})({arg_src(r['target'])})")
    for p in n.get("post", []):
        if p[0] == "set_dispatch":
            out.append(f"{name}.set_dispatch({arg_src(p[1])})")
        elif p[0] == "add_effects":
            out.append(f"{name}.add_effects({EFFECTS[p[1]]})")
        elif p[0] == "disable_effects":
            out.append(f"{name}.disable_effects()")
        elif p[0] == "set_cache":
            out.append(f"{name}.set_cache({p[1]}())" if p[1] == "NoCache" else f"{name}.set_cache({p[1]})")
    return out


def module_src(graphs: List[Dict[str, Any]]) -> str:
    lines = [MODULE_PRELUDE]
    for g in graphs:
        # `try` does not open a scope: the functions / datasets below are still module-level names
        lines.append(f"# ---- {g['gid']}: {g.get('note', '')}")
        lines.append("try:")
        for n in g["nodes"]:
            lines.extend("    " + l for l in node_src(n))
            lines.append("")
        lines.append(f"    GRAPHS[{g['gid']!r}] = [" + ", ".join(g.get("bundle") or [n["name"] for n in g["nodes"]]) + "]")
        lines.append("except Exception as _e:   # construction itself fails: not a pickling matter")
        lines.append(f"    GRAPH_ERRORS[{g['gid']!r}] = type(_e).__name__ + ': ' + str(_e)")
        lines.append("")
    return "\n".join(lines) + "\n"


def decorator_names(g: Dict[str, Any]) -> List[str]:
    return [n["name"] for n in g["nodes"] if n.get("form") == "decorator" and n["kind"] in ("fn", "abstract")]


# =============================================================================================
# graph generation
# =============================================================================================
DISPATCH_KEYS = ["K", "M", "K2", "S.X"]
LOOKUP_KEYS = ["one", "two", 1, None]


def late_dicts(base: Dict[str, Any], which: str) -> List[Dict[str, Any]]:
    o = copy.deepcopy(base)
    o.update({"K": which, "M": which, "K2": which})
    o["S"] = {"X": which, "Y": 1}
    with_late = copy.deepcopy(o)
    with_late["LATE"] = 7
    with_late["LATE2"] = "w"
    off = copy.deepcopy(with_late)
    off["LABREA"] = {"CACHE": {"DISABLED": True}}
    return [with_late, o, off]


def finish_graph(gid: str, nodes: List[Dict[str, Any]], optdicts: List[Dict[str, Any]], warm: List[int],
                 note: str = "") -> Dict[str, Any]:
    full = {"A": 1, "B": 2, "C": 4, "Y": 5, "TAG": "g"}
    return {"gid": gid, "nodes": nodes, "optdicts": optdicts, "warm": warm, "note": note,
            "optdicts2": late_dicts(full, "late"), "optdicts3": late_dicts(full, "late2")}


def std_optdicts() -> List[Dict[str, Any]]:
    full = {"A": 1, "B": 2, "C": 4, "S": {"X": "one", "Y": 9}, "K": "one", "M": "two", "K2": "one", "Y": 5,
            "TAG": "g"}
    a3 = dict(full, A=3)
    nok = {k: v for k, v in full.items() if k not in ("K", "M", "K2", "S")}
    unk = dict(full, K="zzz", M="zzz", K2="zzz", S={"X": "zzz"})
    off = dict(full, LABREA={"CACHE": {"DISABLED": True}})
    noeff = dict(full, LABREA={"EFFECTS": {"DISABLED": True}})
    k1 = dict(full, K=1, M=1, K2=None)
    return [full, {}, {"A": 2}, a3, nok, unk, off, noeff, k1]


def corpus(prefix: str = "c") -> List[Dict[str, Any]]:
    """hand-written cases: every shape the property text names, in explicit and in decorator form"""
    gs: List[Dict[str, Any]] = []
    od = std_optdicts()

    def g(nodes, note, warm=(), optdicts=None):
        gid = f"{prefix}{len(gs)}"
        # make node names unique per graph
        ren = {n["name"]: f"{gid}_{n['name']}" for n in nodes}
        nodes = json.loads(json.dumps(nodes))

        def fix(a):
            if isinstance(a, dict):
                if "ds" in a:
                    a["ds"] = ren[a["ds"]]
                for v in a.values():
                    fix(v)
            elif isinstance(a, list):
                for v in a:
                    fix(v)
        for n in nodes:
            n["name"] = ren[n["name"]]
            if "base" in n:
                n["base"] = ren[n["base"]]
            if n.get("overload_of"):
                n["overload_of"]["base"] = ren[n["overload_of"]["base"]]
            fix(n.get("params", []))
            fix(n.get("registers", []))
            fix(n.get("kw", {}))
            fix(n.get("expr", {}))
        gs.append(finish_graph(gid, nodes, optdicts or od, list(warm), note))

    def fn(name, params=(), form="explicit", kind="fn", **extra):
        d = {"name": name, "kind": kind, "form": form, "params": [list(p) for p in params]}
        d.update(extra)
        return d

    A, B = ("a", {"opt": "A"}), ("b", {"opt": "B", "default": 3})
    for form in ("explicit", "decorator"):
        gs_note = form
        g([fn("d", [A], form)], f"{gs_note}: one function, one option")
        g([fn("d", [A, B], form)], f"{gs_note}: warm cache", warm=[0, 2])
        g([fn("x", [A], form), fn("d", [("x", {"ds": "x"}), B], form)], f"{gs_note}: dataset depending on dataset",
          warm=[0])
        g([fn("x", [A], form), fn("y", [("x", {"ds": "x"})], form),
           fn("d", [("x", {"ds": "x"}), ("y", {"ds": "y"})], form)], f"{gs_note}: diamond, shared sub-dataset", warm=[0])
        g([fn("o", [B], form), fn("d", [A], form, kw={"dispatch": "K"},
                                   registers=[{"via": "register", "keys": ["one"], "target": {"ds": "o"}},
                                              {"via": "register", "keys": ["two", 1], "target": {"opt": "C"}},
                                              {"via": "register", "keys": [None], "target": {"val": [1, 2]}}])],
          f"{gs_note}: overloads registered before pickling (dataset / option / value)", warm=[0])
        g([fn("o", [B], form), fn("d", [A], form, kw={"dispatch": {"opt": "M", "default": "one"}},
                                   registers=[{"via": "overload", "keys": ["one", "two"], "target": {"ds": "o"}}])],
          f"{gs_note}: dispatch by Option with default, overload() with an existing dataset")
        g([fn("d", [A], form, kw={"dispatch": "S.X"}),
           fn("o", [B], form, overload_of={"base": "d", "keys": ["one"]})],
          f"{gs_note}: overload() creating the dataset from a function, dotted dispatch key")
        g([fn("o", [A], form), fn("d", [], form, kind="abstract", kw={"dispatch": "K"},
                                   registers=[{"via": "register", "keys": ["one"], "target": {"ds": "o"}}])],
          f"{gs_note}: abstract dataset")
        g([fn("d", [A, B], form, kw={"options": {"A": 2}, "default_options": {"B": 7, "S": {"X": "one"}}})],
          f"{gs_note}: pre-set and default options")
        for cb in CALLBACKS:
            g([fn("d", [A], form, kw={"callback": cb})], f"{gs_note}: callback {cb}", warm=[0])
        for ef in EFFECTS:
            g([fn("d", [A], form, kw={"effects": [ef]})], f"{gs_note}: effect {ef}")
        g([fn("d", [A], form, kw={"nocache": True, "effects": ["eff_log"]})], f"{gs_note}: nocache")
        g([fn("d", [A], form, body="raise3")], f"{gs_note}: failing body")
        g([fn("d", [("a", {"const": 0})], form, kw={"defaults": {"a": {"opt": "B"}}})], f"{gs_note}: defaults=")
        g([fn("d", [A], form, post=[["set_dispatch", {"opt": "K2", "default": "one"}], ["add_effects", "eff_log"],
                                     ["set_cache", "MemoryCache"]],
              registers=[])], f"{gs_note}: set_dispatch / add_effects / set_cache after construction")
        g([fn("d", [A], form, kw={"effects": ["eff_log"]}, post=[["disable_effects"]])], f"{gs_note}: disable_effects")
        g([fn("d", [A], form, kw={"dispatch": "K"}, post=[["set_cache", "NoCache"]]),
           fn("e", [("d", {"ds": "d"})], form)], f"{gs_note}: set_cache(NoCache())")
    # explicit-only shapes
    g([{"name": "d", "kind": "evalds", "form": "explicit", "expr": {"opt": "A"}}],
      "tests/test_dataset.py::test_pickle shape: dataset(Option('A'))")
    g([{"name": "d", "kind": "evalds", "form": "explicit", "expr": {"opt": "C", "default": 5},
        "kw": {"callback": "cb_wrap", "dispatch": "K"}}], "dataset(Option(...), callback=, dispatch=)")
    g([fn("b", [A, B], kw={"callback": "cb_wrap", "dispatch": "K", "effects": ["eff_log"]}),
       {"name": "w", "kind": "deriv", "form": "explicit", "base": "b", "how": "with_options", "opts": {"A": 7}},
       {"name": "v", "kind": "deriv", "form": "explicit", "base": "b", "how": "with_default_options",
        "opts": {"B": 8}},
       fn("d", [("w", {"ds": "w"}), ("v", {"ds": "v"}), ("b", {"ds": "b"})])],
      "with_options / with_default_options derivatives share overloads, cache and callback with their base", warm=[0])
    g([fn("b", [A]),
       {"name": "d", "kind": "deriv", "form": "explicit", "base": "b", "how": "with_options", "opts": {"A": 7}}],
      "derivative as root")
    g([fn("d", [A], kw={"dispatch": "K"}, registers=[{"via": "register", "keys": ["self"], "target": {"ds": "d"}}])],
      "cyclic object graph: a dataset registered as its own overload (never selected)")
    g([fn("b", [A], kw={"dispatch": {"opt": "K", "default": "raw"}}),
       {"name": "w", "kind": "deriv", "form": "explicit", "base": "b", "how": "with_options", "opts": {"K": "raw"}},
       fn("o", [("x", {"ds": "w"}), B], overload_of={"base": "b", "keys": ["scaled"]}),
       fn("d", [("y", {"ds": "b"})])],
      "cycle through the overload table: an overload that depends on a with_options derivative of its own base "
      "(the derivative shares the base's Overloaded object)",
      optdicts=[{"A": 1, "K": "scaled", "B": 2}, {"A": 1}, {"A": 2, "K": "raw"}, {"A": 3, "K": "scaled"}])
    g([fn("o1", [A]), fn("o2", [B], kw={"dispatch": "M"},
                         registers=[{"via": "register", "keys": ["two"], "target": {"ds": "o1"}}]),
       fn("d", [("c", {"opt": "C", "default": 0})], kw={"dispatch": "K"},
          registers=[{"via": "register", "keys": ["one"], "target": {"ds": "o2"}}])],
      "nested dispatch: overload of an overload", warm=[0])
    g([fn("x", [A]), fn("dd", [A], form="decorator"), fn("d", [("x", {"ds": "x"}), ("y", {"ds": "dd"})])],
      "explicit root depending on one decorator-form dataset")
    return gs


# ---------------------------------------------------------------------------------------------
# directed family: every public wrapper / combinator node class as a STORED node of the pickled graph
# ---------------------------------------------------------------------------------------------
# (shape, source, parts it needs).  `$` is replaced by the graph's name prefix.  A one-line source is the
# expression bound to `$X`; a multi-line source must bind `$X` itself.  Everything it mentions is a module-level
# helper of the generated module (w_*), so the node is made of picklable parts only.
LIFT = "FunctionApplication.lift(w_src)"
WRAPPER_SHAPES: List[Tuple[str, str, List[str]]] = [
    # labrea.cached / Cached with each kind of cache
    ("cached_memorycache", f"cached({LIFT})", []),
    ("cached_user_cache", f"cached({LIFT}, WDictCache('u'))", []),
    ("cached_nocache", f"cached({LIFT}, NoCache())", []),
    ("cached_decorator_user_cache", "cached(WDictCache('v'))(FunctionApplication.lift(w_one))", []),
    ("Cached_constructor", "Cached(Option('A'), MemoryCache())", []),
    ("cached_dataset", "cached(dataset(w_one), WDictCache('ds'))", []),
    ("cached_nested", f"cached(cached({LIFT}, WDictCache('inner')), MemoryCache())", []),
    # logging
    ("logged_before", f"Logged({LIFT}, 20, 'verif.c20', 'before w_src')", []),
    ("logged_after", "Logged(Option('A'), 30, 'verif.c20', 'after A', log_first=False)", []),
    ("computation_effects", f"Computation({LIFT}, ChainedEffect(CallbackEffect(eff_log), "
                            "LogEffect(20, 'verif.c20', 'effect ran')))", []),
    # options
    ("with_options", f"WithOptions({LIFT}, {{'A': 7, 'S': {{'Y': 1}}}})", []),
    ("with_default_options", f"WithDefaultOptions({LIFT}, {{'A': 7, 'B': 8}})", []),
    ("option_plain", "Option('A')", []),
    ("option_default_value", "Option('A', [1, {'k': 2}])", []),
    ("option_default_template", "Option('A', '{B}-x')", []),
    ("option_default_evaluatable", "Option('A', FunctionApplication.lift(w_alt))", []),
    ("option_default_factory", "Option('A', default_factory=w_eleven)", []),
    ("option_typed_getitem", "Option[int]('A')", []),
    ("option_typed_generic", "Option('A', 0, type=List[int])", []),
    ("option_domain_container", "Option('A', domain=[1, 2, 's'])", []),
    ("option_domain_callable", "Option('A', 1, domain=w_small)", []),
    ("option_domain_evaluatable", "Option('A', domain=Option('AS', [1, 2]))", []),
    ("option_doc_dotted", "Option('S.Y', 4, doc='nested key')", []),
    ("all_options", "AllOptions", []),
    ("namespace_member_annotated", "$NS = _w_namespace()\n$X = $NS.A", []),
    ("namespace_member_default", "$NS = _w_namespace()\n$X = $NS.B", []),
    ("namespace_member_auto", "$NS = _w_namespace()\n$X = $NS.C", []),
    ("namespace_member_nested", "$NS = _w_namespace()\n$X = $NS.SUB.X", []),
    ("namespace_member_auto_plain", "$NS = _w_namespace()\n$X = $NS.D", []),
    ("namespace", "_w_namespace()", []),
    ("namespace_nested", "$NS = _w_namespace()\n$X = $NS.SUB", []),
    # conditionals
    ("switch_default", f"Switch('K', {{'one': {LIFT}, 'two': Option('C'), 1: 5}}, Option('B', 3))", []),
    ("switch_no_default", "switch(Option('K', 'one'), {'one': Option('A'), 'two': FunctionApplication.lift(w_alt)})", []),
    ("case_otherwise", "case(Option('A')).when(w_small, FunctionApplication.lift(w_alt)).when(w_is_str, 'str')"
                       ".otherwise(Option('B', 3))", []),
    ("case_no_default", "case(Option('A', 0)).when(w_small, Option('C', 0))", []),
    ("case_evaluatable_condition", "case(Option('A')).when(PartialApplication(w_less, than=Option('B', 3)), 'lt')"
                                   ".otherwise('ge')", []),
    ("coalesce", "coalesce(Option('A'), Option('ZZ'), FunctionApplication.lift(w_alt))", []),
    ("overloaded", f"Overloaded(Option('K', 'one'), {{'one': {LIFT}, 'two': Option('C')}}, Option('B', 3))", []),
    ("overloaded_no_default", "Overloaded(Option('M'), {'two': Option('A')})", []),
    # templates, collections, iteration
    ("template_parameter", "Template('{S.Y}/{:x:}', x=FunctionApplication.lift(w_alt).apply(w_flat))", []),
    ("template_constant_parameter", "Template('{B}+{:n:}', n=5)", []),
    ("iter", f"Iter(Option('A'), Option('B', 3), {LIFT})", []),
    ("evaluatable_list", "evaluatable_list(Option('A'), FunctionApplication.lift(w_alt))", []),
    ("evaluatable_tuple", "evaluatable_tuple(Option('A'), Option('B', 3))", []),
    ("evaluatable_set", "evaluatable_set(Option('A'), Option('B', 3))", []),
    ("evaluatable_dict", "evaluatable_dict({'a': Option('A'), 'alt': FunctionApplication.lift(w_alt)})", []),
    ("map", f"Map({LIFT}, {{'A': Option('AS', [1, 2]), 'B': [5, 6]}})", []),
    ("map_values", f"Map({LIFT}, {{'A': Option('AS', [1, 2]), 'B': [5, 6]}}).values", []),
    # function application, pipelines
    ("lift", LIFT, []),
    ("lift_keyword_defaults", "FunctionApplication.lift(w_src, a=Option('C', 1))", []),
    ("function_application_positional", "FunctionApplication(w_step, Option('A'), y=Option('B', 3))", []),
    ("function_application_of_partial", "FunctionApplication(PartialApplication(w_step, y=Option('Y', 2)), Option('A'))", []),
    ("partial_lift", "PartialApplication.lift(w_step)", []),
    ("partial_constructor", "PartialApplication(w_step, y=Option('B', 3))", []),
    ("pipeline_step", "pipeline_step(w_step)", []),
    ("pipeline_step_constructor", "PipelineStep(Value(w_wrap), 'wrap')", []),
    ("pipeline", "pipeline_step(w_step) + w_wrap + pipeline_step(w_step)", []),
    ("pipeline_empty", "Pipeline()", []),
    ("apply", "Option('A').apply(w_wrap)", []),
    ("rshift_pipeline", "Option('A') >> (pipeline_step(w_step) + w_wrap)", []),
    ("bind", "Option('A').bind(w_pick)", []),
    ("value", "Value([1, {'k': (2, 3)}])", []),
    # datasets, dataset classes, interfaces
    ("dataset_explicit", "dataset(w_src)", []),
    ("dataset_derivative", "dataset(w_src).with_options({'A': 7})", []),
    ("dataset_callback_pipeline", "dataset(w_one, callback=pipeline_step(w_step) + w_wrap, effects=[eff_log])", []),
    ("abstractdataset_registered", "$X = abstractdataset(w_nothing, dispatch='K')\n$X.register('one', " + LIFT + ")", []),
    ("datasetclass", "@datasetclass\nclass $X:\n    a: int = Option('A')\n    alt: list = FunctionApplication.lift(w_alt)\n"
                     "    k: int = 5", []),
    ("interface_member", "@interface('K')\nclass $IF:\n    m = dataset(w_one)\n    n = abstractdataset(w_nothing)\n"
                         "@$IF.implementation('one')\nclass $IMPL:\n    m = FunctionApplication.lift(w_alt)\n"
                         "    n = Option('B', 3)\n$X = $IF.m\n$Y = $IF.n", []),
    ("interface_implements_two", "@interface('K')\nclass $IF:\n    m = dataset(w_one)\n@interface(Option('M', 'two'))\n"
                                 "class $IG:\n    m = abstractdataset(w_nothing)\n"
                                 "@implements($IF, $IG, alias=['one', 'two'])\nclass $IMPL:\n"
                                 f"    m = cached({LIFT})\n$X = $IG.m\n$Y = $IF.m", []),
    # witnesses of known finding F28 (members of an @interface declared by annotation, by an Evaluatable / constant
    # default or by a function in the class body, and implementation members given as functions, cannot be pickled)
    ("interface_annotated_member", "@interface('K')\nclass $IF:\n    m: int\n@$IF.implementation('one')\nclass $IMPL:\n"
                                   "    m = Option('B', 3)\n$X = $IF.m", []),
    ("interface_default_member", "@interface('K')\nclass $IF:\n    p = Option('C', 0)\n$X = $IF.p", []),
    ("interface_constant_member", "@interface('K')\nclass $IF:\n    q = 5\n$X = $IF.q", []),
    ("interface_function_member", "@interface('K')\nclass $IF:\n    def n(a=Option('A')):\n        return ['n', a]\n"
                                  "$X = $IF.n", []),
    ("interface_three_member_kinds", "@interface('K')\nclass $IF:\n    m: int\n    def n(a=Option('A')):\n"
                                     "        return ['n', a]\n    p = Option('C', 0)\n"
                                     "@$IF.implementation('one')\nclass $IMPL:\n    m = Option('B', 3)\n"
                                     "$X = $IF.n\n$Y = $IF.m\n$Z = $IF.p", []),
    ("implementation_function_member", "@interface('K')\nclass $IF:\n    m = dataset(w_one)\n"
                                       "@$IF.implementation('one')\nclass $IMPL:\n    def m(c=Option('C', 0)):\n"
                                       "        return ['impl_m', c]\n$X = $IF.m", []),
]
# extra top-level items of the bundle (objects that are pickled beside the node: classes go by reference)
WRAPPER_EXTRA = {"interface_member": ["$IF", "$IMPL", "$Y"], "interface_implements_two": ["$IF", "$IG", "$IMPL", "$Y"],
                 "interface_annotated_member": ["$IF", "$IMPL"], "interface_default_member": ["$IF"],
                 "interface_constant_member": ["$IF"], "interface_function_member": ["$IF"],
                 "interface_three_member_kinds": ["$IF", "$IMPL", "$Y", "$Z"],
                 "implementation_function_member": ["$IF", "$IMPL"]}
# F28 witnesses: the functions (qualified inside the generated module, or inside labrea.interface for the ones the
# library makes up) whose pickling by reference is what fails
F28_WITNESS = {"interface_annotated_member": ["$IF.m"], "interface_default_member": ["$IF.p"],
               "interface_constant_member": ["$IF.q"], "interface_function_member": ["$IF.n"],
               "interface_three_member_kinds": ["$IF.m", "$IF.n", "$IF.p"],
               "implementation_function_member": ["$IMPL.m"]}


# parts of the library itself that do not pickle on their own on the unchanged code (checked per run like the
# callback helpers; a graph using one is outside "picklable parts"): reported in the evidence, not judged
LIBRARY_PARTS: Dict[str, str] = {}   # (none at present: Namespace objects and Map.values were repaired and are judged)
# classes of labrea that are never a stored node of a dataset graph
NOT_STORED = {
    "labrea.arguments.Arguments": "created per evaluation (the value of EvaluatableArguments)",
    "labrea.conditional._DependsOn": "created per evaluation by Switch / CaseWhen",
    "labrea.datasetclass._DatasetClassMixin": "base of the values a dataset class evaluates to",
    "labrea.dataset.DatasetFactory": "the `dataset` / `abstractdataset` decorator objects",
    "labrea.runtime.Runtime": "handler context, not a node",
}


def wrapper_optdicts() -> List[Dict[str, Any]]:
    """the same dictionary twice in a row: the first evaluation computes (or is served from the memo that travelled
    with the pickle when the graph was warmed), the second is served from the node's cache"""
    full = {"A": 1, "B": 2, "C": 4, "S": {"X": "one", "Y": 9}, "K": "one", "M": "two", "Y": 5, "AS": [1, 2],
            "WNS": {"A": 6, "SUB": {}}}
    other = dict(full, A=2, K="two", M="three", WNS={"A": 7, "B": 8, "C": 9, "SUB": {"X": "y"}})
    nok = {k: v for k, v in full.items() if k not in ("K", "M")}
    off = dict(full, LABREA={"CACHE": {"DISABLED": True}})
    quiet = dict(full, A="s", LABREA={"LOGGING": {"DISABLED": True}, "EFFECTS": {"DISABLED": True}})
    return [full, full, {}, other, nok, off, quiet, dict(full, A=3, K=1)]


def wrappers(prefix: str = "w") -> List[Dict[str, Any]]:
    """for every shape two graphs: (alone) the node pickled directly, next to `node.apply(w_show)` through which it is
    observed — evaluated once on the 4th dictionary before pickling, so that one memo entry travels while the first
    two (equal) dictionaries show compute-then-hit; (stored) one explicit-form dataset (no cache of its own, so the
    caches of the nodes inside it stay visible) holding the same node as an argument default, as a template parameter,
    a switch branch, a coalesce member, an Iter member, inside WithOptions / cached / Logged wrappers and as a registered
    overload implementation (selected by the 4th dictionary) — warmed on the 1st dictionary before pickling (what
    `cached` stores there is `node.apply(w_show)`: plain data, so that the memo itself is a picklable value)."""
    gs: List[Dict[str, Any]] = []
    od = wrapper_optdicts()
    for shape, src, uses in WRAPPER_SHAPES:
        for placement in ("alone", "stored"):
            gid = f"{prefix}{len(gs)}"
            pre = gid + "_"
            x = pre + "X"
            lines = (src if "\n" in src else "$X = " + src).replace("$", pre).split("\n")
            first = {"name": x, "kind": "expr", "form": "explicit", "lines": lines, "uses": uses, "shape": shape}
            if shape in F28_WITNESS:
                first["f28"] = [w.replace("$", pre) for w in F28_WITNESS[shape]]
            extra = [e.replace("$", pre) for e in WRAPPER_EXTRA.get(shape, [])]
            if placement == "alone":
                root = {"name": pre + "R", "kind": "expr", "form": "explicit", "lines": [f"{pre}R = {x}.apply(w_show)"]}
                bundle, warm = extra + [x, pre + "R"], [3]
            else:
                d = pre + "D"
                root = {"name": d, "kind": "expr", "form": "explicit", "lines": [
                    f"def {d}_fn(x={x}, t=Template('{{B}}:{{:x:}}', x={x}.apply(w_flat)), "
                    f"s=Switch('K', {{'one': {x}}}, Option('C', 0)), c=coalesce(Option('ZZ'), {x}), "
                    f"i=Iter({x}, Option('C', 0)), w=WithOptions({x}, {{'C': 9}}), k=cached({x}.apply(w_show)), "
                    f"l=Logged({x}, 20, 'verif.c20', 'stored')):",
                    f"    EFFECT_LOG.append(['ran', 'D'])",
                    f"    return ['D', w_show(x), t, w_show(s), w_show(c), w_show(i), w_show(w), w_show(k), w_show(l)]",
                    f"{d} = dataset.nocache({d}_fn, dispatch=Option('M', 'none'), callback=w_show)",
                    f"{d}.register('three', {x})",
                ]}
                bundle, warm = [d], [0]
            g = finish_graph(gid, [first, root], od, warm, f"{shape} / {placement}")
            g["bundle"] = bundle
            # late registration / late overload matter for the datasets of the corpus; one dictionary each is enough here
            g["optdicts2"], g["optdicts3"] = g["optdicts2"][:1], g["optdicts3"][:1]
            g["shape"], g["placement"] = shape, placement
            gs.append(g)
    return gs


OPT_KEYS = ["A", "B", "C", "S.Y"]
VALUES = [0, 1, 2, 3, "p", [1, 2]]


def gen_graph(rng: random.Random, gid: str, decorator: bool) -> Dict[str, Any]:
    n_nodes = rng.choice([1, 2, 2, 3, 3, 4, 5, 6])
    nodes: List[Dict[str, Any]] = []
    names: List[str] = []
    deco_slots = set()
    if decorator:
        k = rng.randint(1, n_nodes)
        deco_slots = set(rng.sample(range(n_nodes), k if rng.random() < 0.4 else 1))
    with_dispatch: List[str] = []
    for i in range(n_nodes):
        name = f"{gid}_n{i}"
        form = "decorator" if i in deco_slots else "explicit"
        roll = rng.random()
        if names and roll < 0.12 and form == "explicit":
            base = rng.choice(names)
            how = rng.choice(["with_options", "with_default_options"])
            opts = rng.choice([{"A": rng.choice([0, 1, 3])}, {"B": 5}, {"S": {"Y": 2}}, {"K": "one"}, {"C": 1, "A": 2}])
            nodes.append({"name": name, "kind": "deriv", "form": "explicit", "base": base, "how": how, "opts": opts})
            names.append(name)
            continue
        if roll < 0.18 and form == "explicit":
            kw: Dict[str, Any] = {}
            if rng.random() < 0.4:
                kw["callback"] = rng.choice(list(CALLBACKS))
            nodes.append({"name": name, "kind": "evalds", "form": "explicit",
                          "expr": {"opt": rng.choice(["A", "B", "C"]), **({"default": rng.choice(VALUES)}
                                                                       if rng.random() < 0.5 else {})}, "kw": kw})
            names.append(name)
            continue
        params = []
        for j in range(rng.choice([0, 1, 1, 2, 2, 3])):
            r = rng.random()
            if names and r < 0.45:
                params.append([f"p{j}", {"ds": rng.choice(names)}])
            elif r < 0.9:
                a: Dict[str, Any] = {"opt": rng.choice(OPT_KEYS)}
                if rng.random() < 0.4:
                    a["default"] = rng.choice(VALUES)
                params.append([f"p{j}", a])
            else:
                params.append([f"p{j}", {"const": rng.choice(VALUES)}])
        node: Dict[str, Any] = {"name": name, "kind": "fn", "form": form, "params": params}
        kw = {}
        # overload created from a function
        if with_dispatch and rng.random() < 0.15:
            node["overload_of"] = {"base": rng.choice(with_dispatch),
                                   "keys": rng.sample(["one", "two", "three"], rng.choice([1, 2]))}
            # the base now refers to this node: keep evaluation acyclic (an evaluation cycle ends in a
            # RecursionError whose catching frame depends on the depth of the caller's stack)
            node["params"] = [p for p in params if "ds" not in p[1]]
        else:
            if rng.random() < 0.12:
                node["kind"] = "abstract"
                node["params"] = []
            if rng.random() < 0.45 or node["kind"] == "abstract":
                dk = rng.choice(DISPATCH_KEYS)
                kw["dispatch"] = dk if rng.random() < 0.5 else (
                    {"opt": dk, "default": rng.choice(["one", "two", "zzz"])} if rng.random() < 0.7 else {"opt": dk})
            if rng.random() < 0.2:
                kw["options"] = rng.choice([{"A": 2}, {"B": 0}, {"S": {"Y": 3}}, {"K": "two"}, {"A": 3}])
            if rng.random() < 0.2:
                kw["default_options"] = rng.choice([{"A": 5}, {"B": 6, "C": 7}, {"S": {"X": "one", "Y": 1}}, {"M": "one"}])
            if rng.random() < 0.25:
                kw["callback"] = rng.choice(list(CALLBACKS))
            if rng.random() < 0.25:
                kw["effects"] = rng.sample(list(EFFECTS), rng.choice([1, 1, 2]))
            if rng.random() < 0.12:
                kw["nocache"] = True
            if node["kind"] == "fn" and node["params"] and "opt" in node["params"][0][1] and rng.random() < 0.1:
                node["body"] = "raise3"
            if node["kind"] == "fn" and node["params"] and rng.random() < 0.08:
                kw["defaults"] = {node["params"][0][0]: {"opt": rng.choice(["B", "C"])}}
        node["kw"] = kw
        regs = []
        if kw.get("dispatch") is not None:
            for _ in range(rng.choice([0, 1, 1, 2, 3])):
                r = rng.random()
                if names and r < 0.6:
                    target: Dict[str, Any] = {"ds": rng.choice(names)}
                elif r < 0.85:
                    target = {"opt": rng.choice(["A", "B", "C"])}
                else:
                    target = {"val": rng.choice([[1, 2], 5, "v"])}
                via = "overload" if ("ds" in target and rng.random() < 0.4) else "register"
                keys = rng.sample(LOOKUP_KEYS, rng.choice([1, 1, 2]))
                regs.append({"via": via, "keys": keys, "target": target})
        node["registers"] = regs
        post = []
        if rng.random() < 0.08:
            post.append(["set_dispatch", {"opt": "K2", "default": rng.choice(["one", "late"])}])
        if rng.random() < 0.08:
            post.append(["add_effects", rng.choice(list(EFFECTS))])
        if rng.random() < 0.05:
            post.append(["disable_effects"])
        if rng.random() < 0.06:
            post.append(["set_cache", rng.choice(["NoCache", "MemoryCache"])])
        node["post"] = post
        nodes.append(node)
        names.append(name)
        if kw.get("dispatch") is not None or any(p[0] == "set_dispatch" for p in post):
            with_dispatch.append(name)
    # option dictionaries
    def rnd_dict() -> Dict[str, Any]:
        o: Dict[str, Any] = {}
        for k in ["A", "B", "C", "Y"]:
            if rng.random() < 0.75:
                o[k] = rng.choice(VALUES)
        if rng.random() < 0.7:
            s: Dict[str, Any] = {}
            if rng.random() < 0.7:
                s["X"] = rng.choice(["one", "two", "three", "zzz", 1])
            if rng.random() < 0.7:
                s["Y"] = rng.choice(VALUES)
            o["S"] = s
        for k in ["K", "M", "K2"]:
            if rng.random() < 0.7:
                o[k] = rng.choice(["one", "two", "three", "zzz", 1, None])
        if rng.random() < 0.3:
            o["TAG"] = rng.choice(["g", "h"])
        if rng.random() < 0.25:
            o["LABREA"] = {"CACHE": {"DISABLED": True}}
        elif rng.random() < 0.1:
            o["LABREA"] = {"EFFECTS": {"DISABLED": True}}
        return o
    optdicts = std_optdicts()[:2] + [rnd_dict() for _ in range(4)]
    warm = [i for i in range(len(optdicts)) if rng.random() < 0.35]
    return finish_graph(gid, nodes, optdicts, warm, "random")


# =============================================================================================
# running a batch
# =============================================================================================
def run_batch(graphs: List[Dict[str, Any]], protocols: List[int], tag: str) -> Dict[str, Any]:
    """writes the module, runs process A, process B and the model; returns per-graph raw results"""
    work = Path(tempfile.mkdtemp(prefix="verif_c20_"))
    try:
        modname = f"verif_c20_mod_{tag}"
        (work / "c20_support.py").write_text(SUPPORT_SRC)
        src = module_src(graphs)
        (work / f"{modname}.py").write_text(src)
        spec = {"module": modname, "protocols": protocols,
                "graphs": [dict({k: g[k] for k in ("gid", "optdicts", "optdicts2", "optdicts3", "warm")},
                                own_orig=bool(g.get("own_orig"))) for g in graphs]}
        (work / "spec.json").write_text(json.dumps(spec))
        # a small environment for both interpreters: labrea resolves every option value through confectioner, which
        # copies os.environ on each call, so the evaluation cost grows with the number of variables; no generated
        # option value refers to the environment
        keep = ("PATH", "HOME", "LANG", "TMPDIR", "TZ", "LD_LIBRARY_PATH", "VIRTUAL_ENV")
        env = {k: v for k, v in os.environ.items() if k in keep or k.startswith(("LC_", "PYTHON", "VERIF_"))}
        env["PYTHONPATH"] = f"{REPO}{os.pathsep}{work}"
        env["PYTHONDONTWRITEBYTECODE"] = "1"
        env.pop("PYTHONHASHSEED", None)
        pk = str(work / "pickles.bin")
        fa = open(work / "a.out", "w")
        fea = open(work / "a.err", "w")
        # which side of the round trip an interpreter is: functions of the generated module that keep state on
        # themselves initialise it from this variable (differently in the receiving process)
        pa = subprocess.Popen([PY, "-B", str(work / "c20_support.py"), "A", str(work / "spec.json"), pk],
                              stdout=fa, stderr=fea, env=dict(env, VERIF_C20_PROC="A"), cwd=str(work))
        t0 = time.time()
        while not os.path.exists(pk) and pa.poll() is None and time.time() - t0 < 900:
            time.sleep(0.02)
        b_out, b_err, b_rc = "", "", None
        if os.path.exists(pk):
            rb = subprocess.run([PY, "-B", str(work / "c20_support.py"), "B", str(work / "spec.json"), pk],
                                capture_output=True, text=True, env=dict(env, VERIF_C20_PROC="B"), cwd=str(work),
                                timeout=1800)
            b_out, b_err, b_rc = rb.stdout, rb.stderr, rb.returncode
        try:
            pa.wait(timeout=1800)
        finally:
            fa.close()
            fea.close()
        a_out = (work / "a.out").read_text()
        a_err = (work / "a.err").read_text()
        if pa.returncode != 0:
            # the module could not even be imported / the runner crashed: which graph? report as infra unless
            # the traceback is inside labrea (then it is a construction failure, the same for every form)
            raise Infra(f"C20 process A failed (rc={pa.returncode}): {a_err[-1500:]}")
        if b_rc not in (0,):
            raise Infra(f"C20 process B failed (rc={b_rc}): {b_err[-1500:]}")
        res: Dict[str, Any] = {"parts": {}, "graphs": {}, "module": modname}
        for line in a_out.splitlines():
            if not line.strip():
                continue
            d = json.loads(line)
            if "parts" in d:
                res["parts"] = d["parts"]
                res["part_errors"] = d.get("part_errors", {})
                res["universe"] = d.get("universe", {})
            else:
                res["graphs"][d["gid"]] = d
        for line in b_out.splitlines():
            if not line.strip():
                continue
            d = json.loads(line)
            r = res["graphs"].setdefault(d["gid"], {"gid": d["gid"]})
            r["fresh"] = d["fresh"]
            r["load_err_fresh"] = d["load_err"]
            if "own" in d:
                r["own_fresh"] = d["own"]
            if "own_err" in d:
                r["own_fresh_err"] = d["own_err"]
        # model
        order = [g["gid"] for g in graphs if "heap" in res["graphs"].get(g["gid"], {})]
        if order:
            out = run_driver("drv_pickle", [res["graphs"][gid]["heap"] for gid in order])
            if len(out) != len(order):
                raise Infra(f"drv_pickle returned {len(out)} lines for {len(order)} cases")
            for gid, line in zip(order, out):
                res["graphs"][gid]["model"] = line
        return res
    finally:
        shutil.rmtree(work, ignore_errors=True)


# =============================================================================================
# judging
# =============================================================================================
SAFE = set("abcdefghijklmnopqrstuvwxyzABCDEFGHIJKLMNOPQRSTUVWXYZ0123456789_.-")


def esc(s: str) -> str:
    return "".join(chr(b) if chr(b) in SAFE else "%%%02X" % b for b in s.encode("utf-8", "replace"))


NOT_SAME = re.compile(r"it's not the same object as ([A-Za-z0-9_.]+)$")


def f12_names(module: str, g: Dict[str, Any]) -> List[str]:
    return [f"{module}.{n}" for n in decorator_names(g)]


LOOKUP_FAILED = re.compile(r"attribute lookup ([A-Za-z0-9_.]+) on ([A-Za-z0-9_.]+) failed$")


def f28_names(g: Dict[str, Any]) -> List[str]:
    return [w for n in g["nodes"] for w in n.get("f28", [])]


# any name (also `<lambda>`) / a local object
LOOKUP_FAILED_ANY = re.compile(r"attribute lookup (\S+) on ([A-Za-z0-9_.]+) failed$")
LOCAL_OBJECT = re.compile(r"^Can't pickle local object '(\S+)'$")


def f33_names(g: Dict[str, Any]) -> List[str]:
    return [w for n in g["nodes"] for w in n.get("f33_annotation", [])]


def listed_known() -> set:
    """ids that /verif/known_findings.json (read now) lists for this property: only those excuse a failure"""
    return {k.get("id") for k in known_findings().get("known", []) if "C20" in k.get("properties", [])}


def classify(payload: Dict[str, Any]) -> Optional[str]:
    """known-finding trigger.  F12 exactly when the graph contains a decorator-form dataset and
    pickling failed, for every protocol tried, with PicklingError "... it's not the same object as
    <module>.<function>" naming such a decorator-form function.
    F28 exactly when the graph declares interface / implementation members of the kinds F28 names (member by
    annotation, by Evaluatable or constant default, by a function in the class body; implementation member given as a
    function) and pickling failed, for every protocol tried, with PicklingError naming the function of such a member:
    "... it's not the same object as <module>.<Class>.<member>" (the user's function, re-bound by the library) or
    "... attribute lookup <Class>.<member> on labrea.interface failed" (a function the library made up).
    F33 exactly when the graph builds a Dataset from a function annotated with an object pickle rejects (witness graphs:
    `f33_annotation` names the object) and pickling failed, for every protocol tried, naming that object: PicklingError
    "... attribute lookup <name> on <module> failed" or AttributeError "Can't pickle local object '<name>'".
    (Whether a returned id excuses the failure is decided by the caller: it must be listed for C20 in
    known_findings.json.)"""
    g = payload.get("graph")
    obs = payload.get("observed") or {}
    module = payload.get("module", "")
    if not g or not obs.get("dump_err"):
        return None
    names = set(f12_names(module, g))
    if names and all(cls == "PicklingError" and NOT_SAME.search(msg) and NOT_SAME.search(msg).group(1) in names
                     for cls, msg in obs["dump_err"].values()):
        return "F12"
    members = set(f28_names(g))
    if members:
        for cls, msg in obs["dump_err"].values():
            same, look = NOT_SAME.search(msg), LOOKUP_FAILED.search(msg)
            if cls != "PicklingError":
                return None
            if same and same.group(1) in {f"{module}.{w}" for w in members}:
                continue
            if look and look.group(1) in members and look.group(2) == "labrea.interface":
                continue
            return None
        return "F28"
    annotated = set(f33_names(g))
    if annotated:
        for cls, msg in obs["dump_err"].values():
            look, local = LOOKUP_FAILED_ANY.search(msg), LOCAL_OBJECT.search(msg)
            if cls == "PicklingError" and look and look.group(1) in annotated and look.group(2) == module:
                continue
            if cls == "AttributeError" and local and local.group(1) in annotated:
                continue
            return None
        return "F33"
    return None


# order in which the facets of an observation are compared / reported
FACETS = ["at", "q1", "x0", "T", "reg", "R", "q2", "ovl", "q3"]


def first_diff(a: Any, b: Any, path: str = "") -> str:
    if type(a) != type(b):
        return f"{path}: {json.dumps(a)[:120]} != {json.dumps(b)[:120]}"
    if isinstance(a, dict):
        for k in sorted(set(a) | set(b)):
            if a.get(k) != b.get(k):
                return first_diff(a.get(k), b.get(k), f"{path}.{k}")
    if isinstance(a, list):
        if len(a) != len(b):
            return f"{path}: length {len(a)} != {len(b)}"
        for i, (x, y) in enumerate(zip(a, b)):
            if x != y:
                return first_diff(x, y, f"{path}[{i}]")
    return f"{path}: {json.dumps(a)[:120]} != {json.dumps(b)[:120]}"


def judge(g: Dict[str, Any], r: Dict[str, Any], module: str, protocols: List[int]) -> List[Tuple[str, str, Optional[str]]]:
    """returns (kind, what, known_id) for everything wrong with this graph"""
    out: List[Tuple[str, str, Optional[str]]] = []
    if "build_err" in r:
        return out          # the graph could not even be constructed: nothing to pickle, not a C20 matter
    model = r.get("model")
    if "heap_err" in r:
        out.append(("correspondence", f"the object graph could not be abstracted for the model: {r['heap_err']}", None))
    if model is not None and model.startswith("PARSE-ERROR"):
        out.append(("correspondence", f"drv_pickle could not read the heap: {model}", None))
        model = None
    dump_err = r.get("dump_err", {})
    if dump_err:
        known = classify({"graph": g, "observed": {"dump_err": dump_err}, "module": module})
        if known is not None and known not in listed_known():
            known = None        # matches the description of a finding nobody recorded for C20: a violation
        p0 = sorted(dump_err)[0]
        what = (f"pickle.dumps fails for protocol(s) {sorted(dump_err)}: {dump_err[p0][0]}: {dump_err[p0][1]}"
                .replace(module, "<module>"))
        out.append(("failing-input", what, known))
        if model is not None:
            m = NOT_SAME.search(dump_err[p0][1])
            want = f"E notSame {esc(m.group(1))}" if (m and dump_err[p0][0] == "PicklingError") else None
            lf = LOOKUP_FAILED.search(dump_err[p0][1])
            if lf and dump_err[p0][0] == "PicklingError":
                want = f"E notFound {esc(lf.group(2) + '.' + lf.group(1))}"
            la, lo = LOOKUP_FAILED_ANY.search(dump_err[p0][1]), LOCAL_OBJECT.search(dump_err[p0][1])
            if want is None and la and dump_err[p0][0] == "PicklingError":
                want = f"E notFound {esc(la.group(2) + '.' + la.group(1))}"     # e.g. <module>.<lambda>
            if want is None and lo and dump_err[p0][0] == "AttributeError" and model.startswith("E notFound ") \
                    and model.endswith(esc("." + lo.group(1))):
                want = model       # a local object: pickle's message has the qualified name without the module
            if model != want:
                out.append(("correspondence", f"model says '{model}' where pickle.dumps raised "
                            f"{dump_err[p0][0]}: {dump_err[p0][1]}".replace(module, "<module>"), None))
        if len(dump_err) != len(protocols):
            out.append(("failing-input", f"pickle.dumps fails for protocols {sorted(dump_err)} only", None))
        return out
    # all protocols dumped
    if model is not None and not model.startswith("E ok D ok T "):
        out.append(("correspondence", f"model says '{model[:200]}' but pickle.dumps succeeded for every protocol"
                    .replace(esc(module), "<module>"), None))
        model = None
    mt = mr = None
    if model is not None:
        body = model[len("E ok D ok T "):]
        mt, _, mr = body.partition(" R ")
        # the model also prints whether each Overloaded holds a lock (L/N); only the tables are compared
        mt = re.sub(r"(^|;)[LN]", r"\1", mt)
        mr = re.sub(r"(^|;)[LN]", r"\1", mr)
    orig = r.get("orig")
    if g.get("own_orig") and r.get("own_fresh") is None:
        out.append(("failing-input", "the fresh interpreter could not observe the graph as it builds it itself: "
                    f"{r.get('own_fresh_err')}", None))
    for where, key, lerr in (("in-process", "inproc", "load_err"), ("fresh interpreter", "fresh", "load_err_fresh")):
        # what a copy has to behave like: the original of the pickling process; in the fresh interpreter, for graphs
        # whose functions keep process-dependent state, the same graph as that interpreter builds it
        ref, ref_name = orig, "original"
        if key == "fresh" and g.get("own_orig"):
            ref, ref_name = r.get("own_fresh"), "graph built by the fresh interpreter"
        for p in protocols:
            ps = str(p)
            le = r.get(lerr, {}).get(ps)
            if le:
                out.append(("failing-input", f"pickle.loads fails ({where}, protocol {p}): {le[0]}: {le[1]}", None))
                continue
            cp = r.get(key, {}).get(ps)
            if cp is None:
                out.append(("failing-input", f"no observation of the copy ({where}, protocol {p})", None))
                continue
            if ref is not None and ref != cp:
                facet = next((k for k in FACETS if ref.get(k) != cp.get(k)), None)
                where_diff = (first_diff(ref.get(facet), cp.get(facet), f"{ref_name}.{facet} vs copy.{facet}")
                              if facet else first_diff(ref, cp, "obs"))
                out.append(("failing-input", f"behaviour differs after the round trip ({where}, protocol {p}): "
                            + where_diff, None))
            if mt is not None and (cp.get("T") != mt or cp.get("R") != mr):
                out.append(("correspondence", f"lookup tables after the round trip ({where}, protocol {p}): "
                            f"model T='{mt}' R='{mr}' vs copy T='{cp.get('T')}' R='{cp.get('R')}'", None))
    return out


# =============================================================================================
# explore / shrink / replay
# =============================================================================================
def protocols_for(tier: str, corpus_part: bool) -> List[int]:
    hi = pickle.HIGHEST_PROTOCOL
    return list(range(0, hi + 1)) if (tier == "thorough" or corpus_part) else list(range(2, hi + 1))


def run_and_judge(graphs: List[Dict[str, Any]], protocols: List[int], tag: str):
    res = run_batch(graphs, protocols, tag)
    verdicts = {}
    for g in graphs:
        r = res["graphs"].get(g["gid"], {})
        verdicts[g["gid"]] = judge(g, r, res["module"], protocols)
    return res, verdicts


def uses_unpicklable_part(g: Dict[str, Any], parts: Dict[str, bool]) -> bool:
    for n in g["nodes"]:
        kw = n.get("kw", {})
        used = ([kw["callback"]] if kw.get("callback") else []) + list(kw.get("effects", []))
        used += [p[1] for p in n.get("post", []) if p[0] == "add_effects"]
        used += list(n.get("uses", []))
        if any(parts.get(u) is False for u in used):
            return True
    return False


def shrink(g: Dict[str, Any], protocols: List[int], kind: str, what: str = "", budget: int = 24) -> Dict[str, Any]:
    """greedy: drop nodes nobody refers to, registrations, keyword arguments, post operations, option
    dictionaries — while a finding of the same kind (and not a known one) persists"""
    def refs(n):
        s = json.dumps({k: v for k, v in n.items() if k != "name"})
        return s

    def still(c) -> bool:
        try:
            _res, v = run_and_judge([c], protocols, f"shrink_{os.getpid()}_{int(time.time()*1000) % 100000}")
        except Exception:
            return False
        return any(k == kind and known is None and (facet is None or facet in w) for k, w, known in v[c["gid"]])

    m = re.search(r"original\.\w+", what)
    facet = m.group(0) if m else None
    cur = g
    tries = 0
    changed = True
    while changed and tries < budget:
        changed = False
        cands = []
        names = [n["name"] for n in cur["nodes"]]
        for i, n in enumerate(cur["nodes"][:-1]):
            others = "".join(refs(m) for j, m in enumerate(cur["nodes"]) if j != i)
            in_lines = any(n["name"] in l for j, m in enumerate(cur["nodes"]) if j != i for l in m.get("lines", []))
            if f'"{n["name"]}"' not in others and not in_lines and n["name"] not in cur.get("bundle", []):
                c = copy.deepcopy(cur)
                del c["nodes"][i]
                cands.append(c)
        for i, n in enumerate(cur["nodes"]):
            for fld in ("registers", "post"):
                if n.get(fld):
                    c = copy.deepcopy(cur)
                    c["nodes"][i][fld] = []
                    cands.append(c)
            for k in list(n.get("kw", {})):
                c = copy.deepcopy(cur)
                del c["nodes"][i]["kw"][k]
                if n["kind"] == "abstract" and k == "dispatch":
                    continue
                cands.append(c)
        if cur["warm"]:
            c = copy.deepcopy(cur)
            c["warm"] = []
            cands.append(c)
        if len(cur["optdicts"]) > 1:
            for i in range(len(cur["optdicts"])):
                c = copy.deepcopy(cur)
                del c["optdicts"][i]
                c["warm"] = [w for w in c["warm"] if w < len(c["optdicts"])]
                cands.append(c)
        for c in cands:
            if tries >= budget:
                break
            tries += 1
            if still(c):
                cur = c
                changed = True
                break
    return cur


def make_payload(g: Dict[str, Any], r: Dict[str, Any], module: str, protocols: List[int], what: str) -> Dict[str, Any]:
    return {"graph": g, "protocols": protocols, "module": module,
            "module_source": module_src([g]),
            "observed": {"dump_err": r.get("dump_err", {}), "load_err": r.get("load_err", {}),
                         "load_err_fresh": r.get("load_err_fresh", {}), "model": r.get("model"),
                         "orig": r.get("orig"), "copy_example": (list(r.get("inproc", {}).values()) or [None])[0]},
            "how_to_read": "graph.nodes is the dataset graph (module_source is the generated Python); the bundle "
                           "[nodes...] is pickled; observed.orig / copies are what observe() saw; " + what}


def explore(ctx: Ctx) -> Exploration:
    rng = random.Random(ctx.seed)
    thorough = ctx.tier == "thorough"
    n_random = 2400 if thorough else 170
    batch_size = 400
    findings: List[Finding] = []
    dist: Counter = Counter()
    cov_cases = 0
    nontrivial = set()
    disagreements_checked = 0
    samples: List[str] = []
    f12: List[Tuple[Dict[str, Any], Dict[str, Any], str, List[int], str]] = []
    f28: List[Tuple[Dict[str, Any], Dict[str, Any], str, List[int], str]] = []
    n_f28_witnesses = 0
    f33: List[Tuple[Dict[str, Any], Dict[str, Any], str, List[int], str]] = []
    n_f33_witnesses = 0
    f33_seen: List[Dict[str, Any]] = []
    f33_kinds = {k["kind"] for k in FO_KINDS if k.get("f33")}
    f33_other = 0       # graphs that use the same annotated functions in the other positions (judged like any graph)
    n_deco = 0
    skipped_parts = 0
    build_failed = 0
    parts_seen: Dict[str, bool] = {}

    corp = corpus("c")
    fam = wrappers("w")
    fobj = functions("f", fine=thorough)
    fo_cov: Dict[str, Dict[str, Any]] = {
        k["kind"]: {"graphs_judged": 0, "positions": [], "not_a_picklable_part": 0, "construction_failed": 0,
                    "failing_as_known_finding_F33": 0} for k in FO_KINDS}
    fo_lost: List[str] = []
    rand = [gen_graph(rng, f"r{i}", decorator=(rng.random() < 0.22)) for i in range(n_random)]
    all_protocols = protocols_for(ctx.tier, True)
    batches: List[Tuple[List[Dict[str, Any]], List[int], str, Any]] = [(corp, all_protocols, f"{ctx.seed}_c", None)]
    # the directed wrapper / combinator family (always, every protocol): its interpreters run beside the other
    # batches, so the wall time of the check stays what the corpus + random batches need
    n_chunks = 4
    per = (len(fam) + n_chunks - 1) // n_chunks
    n_fo_chunks = 2
    pool = ThreadPoolExecutor(max_workers=n_chunks + n_fo_chunks + 1)
    for i in range(n_chunks):
        chunk = fam[i * per:(i + 1) * per]
        if chunk:
            tag = f"{ctx.seed}_w{i}"
            batches.append((chunk, all_protocols, tag, pool.submit(run_and_judge, chunk, all_protocols, tag)))
    # the directed function-object family (always, every protocol), beside the others in the same pool; dealt out
    # round-robin so that every chunk holds every kind
    for i in range(n_fo_chunks):
        chunk = fobj[i::n_fo_chunks]
        if chunk:
            tag = f"{ctx.seed}_f{i}"
            batches.append((chunk, all_protocols, tag, pool.submit(run_and_judge, chunk, all_protocols, tag)))
    for b in range(0, len(rand), batch_size):
        chunk, protos, tag = rand[b:b + batch_size], protocols_for(ctx.tier, False), f"{ctx.seed}_r{b // batch_size}"
        # (the first random batch starts right away as well; the later ones run one after the other, within the budget)
        batches.append((chunk, protos, tag, pool.submit(run_and_judge, chunk, protos, tag) if b == 0 else None))
    pool.shutdown(wait=False)

    new_count = 0
    class_cov: Dict[str, Dict[str, int]] = {}
    universe: Dict[str, str] = {}
    part_errors: Dict[str, str] = {}
    fam_lost: List[str] = []
    for graphs, protocols, tag, future in batches:
        family = "corpus" if "_c" in tag else "wrappers" if "_w" in tag else "functions" if "_f" in tag else "random"
        if ctx.elapsed() > (480 if thorough else 50) and family == "random":
            dist["batches_skipped_for_time"] += 1
            continue
        res, verdicts = future.result() if future is not None else run_and_judge(graphs, protocols, tag)
        parts_seen.update(res["parts"])
        part_errors.update(res.get("part_errors", {}))
        universe.update(res.get("universe", {}))
        for g in graphs:
            gid = g["gid"]
            r = res["graphs"].get(gid, {})
            v = verdicts[gid]
            if "build_err" in r:
                dist["outside_property:construction_failed"] += 1
                build_failed += 1
                if family == "wrappers":
                    fam_lost.append(f"{g['note']}: {r['build_err']}")
                if family == "functions":
                    fo_cov[g["fo_kind"]]["construction_failed"] += 1
                    fo_lost.append(f"{g['note']}: {r['build_err']}")
                continue
            if uses_unpicklable_part(g, res["parts"]):
                # a callback / effect helper / function object that does not pickle on its own: outside "picklable parts"
                skipped_parts += 1
                dist["outside_property:unpicklable_part"] += 1
                if family == "functions":
                    fo_cov[g["fo_kind"]]["not_a_picklable_part"] += 1
                continue
            if family == "functions":
                fo_cov[g["fo_kind"]]["graphs_judged"] += 1
                dist["function_object:" + g["fo_kind"]] += 1
                f33_other += (g["fo_kind"] in f33_kinds and not f33_names(g))
                for pos in g["fo_positions"]:
                    if pos not in fo_cov[g["fo_kind"]]["positions"]:
                        fo_cov[g["fo_kind"]]["positions"].append(pos)
                    dist["function_position:" + pos] += 1
            cov_cases += 1
            deco = bool(decorator_names(g))
            n_deco += deco
            n_f28_witnesses += bool(f28_names(g))
            n_f33_witnesses += bool(f33_names(g))
            dist["form:" + ("decorator" if deco else "explicit")] += 1
            dist[f"nodes:{len(g['nodes'])}"] += 1
            for n in g["nodes"]:
                dist["kind:" + n["kind"]] += 1
                kw = n.get("kw", {})
                for k in kw:
                    if kw[k]:
                        dist["kw:" + k] += 1
                if n.get("registers"):
                    dist["has_registers"] += 1
                if n.get("overload_of"):
                    dist["overload_from_function"] += 1
                for p in n.get("post", []):
                    dist["post:" + p[0]] += 1
            if g["warm"]:
                dist["warm_cache"] += 1
            dist["family:" + family] += 1
            if g.get("placement"):
                dist["wrapper_placement:" + g["placement"]] += 1
            if not r.get("dump_err"):
                # node classes inside what was actually pickled (walk of the live objects in process A)
                for cls, (n_obj, top, under) in r.get("classes", {}).items():
                    e = class_cov.setdefault(cls, {"graphs": 0, "top_level_item": 0, "inside_a_dataset": 0,
                                                   "in_corpus": 0, "in_wrappers": 0, "in_functions": 0, "in_random": 0})
                    e["graphs"] += 1
                    e["top_level_item"] += top
                    e["inside_a_dataset"] += under
                    e["in_" + family] += 1
            orig = r.get("orig")
            if orig:
                for q in ("q1", "q2", "q3"):
                    for o in orig.get(q, []):
                        ev = o["ev"]
                        dist["outcome:" + ("value" if ev[0] == "v" else ev[2][-1].split("@")[0])] += 1
                dist["late_overload:" + str(orig.get("ovl"))] += 1
                disagreements_checked += (len(protocols) * 2) * (len(orig.get("q1", [])) + len(orig.get("q2", []))
                                                                + len(orig.get("q3", []))) * 3
                if len(g["nodes"]) > 1 or any(n.get("registers") or n.get("kw") for n in g["nodes"]):
                    nontrivial.add(json.dumps(g["nodes"], sort_keys=True).replace(gid + "_", ""))
            if len(samples) < 5 and (gid.startswith("r") and len(g["nodes"]) >= 3 or gid in ("c4", "c60", "w3")):
                samples.append(f"{gid} [{'decorator' if deco else 'explicit'}] " +
                               " | ".join(l for n in g["nodes"] for l in node_src(n) if not l.startswith("    "))[:400]
                               + f"  -> model: {str(r.get('model'))[:160]}")
            for kind, what, known in v:
                if known == "F12":
                    f12.append((g, r, res["module"], protocols, what))
                if known == "F28":
                    f28.append((g, r, res["module"], protocols, what))
                if known == "F33":
                    f33.append((g, r, res["module"], protocols, what))
                    fo_cov[g["fo_kind"]]["failing_as_known_finding_F33"] += 1
                    f33_seen.append({"kind": g["fo_kind"], "positions": g["fo_positions"],
                                     "annotation_object": f33_names(g), "pickle.dumps": what})
            fresh_v = [(k, w) for k, w, kn in v if kn is None]
            if not fresh_v:
                continue
            # one finding per graph: the concrete failing input if there is one, else the disagreement
            kind, what = ([x for x in fresh_v if x[0] == "failing-input"] or fresh_v)[0]
            new_count += 1
            if new_count > 6:
                continue
            payload = make_payload(g, r, res["module"], protocols, what)
            payload["all_findings_on_this_graph"] = [f"{k}: {w}" for k, w in fresh_v][:12]
            if ctx.elapsed() < (400 if thorough else 40):
                gs = shrink(g, protocols, kind, what, budget=10 if family in ("wrappers", "functions") else 24)
                if gs is not g:
                    res2, v2 = run_and_judge([gs], protocols, f"{ctx.seed}_s{new_count}")
                    same = [(k, w) for k, w, kn in v2[gs["gid"]] if kn is None]
                    if [x for x in same if x[0] == kind]:
                        what = [x for x in same if x[0] == kind][0][1]
                        payload = make_payload(gs, res2["graphs"][gs["gid"]], res2["module"], protocols, what)
                        payload["all_findings_on_this_graph"] = [f"{k}: {w}" for k, w in same][:12]
                        payload["shrunk_from"] = g["nodes"]
            findings.append(Finding(kind, what, payload))
    if cov_cases == 0:
        raise Infra(f"C20: none of the generated graphs could be constructed / used ({build_failed} construction "
                    f"failures, {skipped_parts} using unpicklable parts)")
    if f12:
        g, r, module, protocols, what = min(f12, key=lambda t: len(json.dumps(t[0]["nodes"])))
        findings.append(Finding(
            "failing-input",
            f"decorator-form datasets are not picklable ({len(f12)} of {n_deco} graphs containing one; every protocol): "
            + what, make_payload(g, r, module, protocols, what), known_id="F12"))
    if f28:
        # (judge() hands out the id only while known_findings.json lists F28 for C20; a witness that fails in any other
        # way, or while F28 is not listed, is an ordinary violation above; one that stops failing is judged like any graph)
        g, r, module, protocols, what = min(f28, key=lambda t: len(json.dumps(t[0]["nodes"])))
        findings.append(Finding(
            "failing-input",
            f"interface members declared by annotation / default value / function in the class body, and implementation "
            f"members given as functions, are not picklable ({len(f28)} of {n_f28_witnesses} witness graphs; every "
            f"protocol): " + what, make_payload(g, r, module, protocols, what), known_id="F28"))
    if f33:
        # (same rules as F28: the id is handed out only while known_findings.json lists F33 for C20)
        g, r, module, protocols, what = min(f33, key=lambda t: len(json.dumps(t[0]["nodes"])))
        findings.append(Finding(
            "failing-input",
            f"a dataset built from a function that pickles on its own but is annotated with an object pickle rejects "
            f"(Annotated[int, <lambda>], a class defined inside a function) is not picklable: dataset(f) / overload(k)(f) "
            f"copy f.__annotations__ into the Dataset ({len(f33)} of {n_f33_witnesses} witness graphs; every protocol): "
            + what, make_payload(g, r, module, protocols, what), known_id="F33"))
    dist["f33_graphs"] = len(f33)
    dist["f33_witness_graphs"] = n_f33_witnesses
    dist["f28_graphs"] = len(f28)
    dist["f28_witness_graphs"] = n_f28_witnesses
    dist["f12_graphs"] = len(f12)
    dist["decorator_form_graphs"] = n_deco
    # coverage of the library's node classes: every class defined in a labrea module, with the number of pickled
    # graphs (dumps succeeded, graph judged) whose object graph contains an instance of it
    table: Dict[str, Any] = {}
    zero = {"graphs": 0, "top_level_item": 0, "inside_a_dataset": 0, "in_corpus": 0, "in_wrappers": 0, "in_functions": 0,
            "in_random": 0}
    for cls in sorted(set(universe) | set(class_cov)):
        row = dict(class_cov.get(cls, zero))
        if universe.get(cls) == "abstract":
            row["note"] = "abstract base (instances are counted under their concrete class)"
        elif cls in NOT_STORED:
            row["note"] = NOT_STORED[cls]
        table[cls] = row
    zero_cov = [c for c, row in table.items() if row["graphs"] == 0 and universe.get(c) == "concrete"]
    unpicklable_nodes = [{"part": k, "failure_on_its_own": part_errors.get(k, "?"), "reproducer": LIBRARY_PARTS[k]}
                         for k in sorted(LIBRARY_PARTS) if parts_seen.get(k) is False]
    print(f"COVERAGE property=C20 node classes with an instance in a pickled graph: "
          f"{sum(1 for r_ in table.values() if r_['graphs'])} of {len(table)}; none in: "
          + (", ".join(c.replace("labrea.", "") for c in zero_cov) or "-"))
    cov = {
        "evaluations": cov_cases,
        "programs": cov_cases,
        "distinct_nontrivial": len(nontrivial),
        "rule": "a graph is non-trivial when it has more than one dataset or any overload registration / keyword "
                "argument (dispatch, options, callback, effects, ...); counted once per distinct node structure; "
                "decorator-form graphs count only as far as pickling gets (they fail at dumps: F12)",
        "disagreements_checked": disagreements_checked,
        "protocols": {"corpus": protocols_for(ctx.tier, True), "random": protocols_for(ctx.tier, False)},
        "processes": "per batch: one process building/pickling/observing in-process, one freshly started interpreter "
                     "loading the bytes",
        "picklable_parts": parts_seen,
        "node_class_coverage": {
            "rule": "rows: every class defined in a labrea module (no exceptions / enums / runtime requests / protocols) "
                    "plus user subclasses met; graphs = pickled graphs (all protocols dumped, graph judged) whose live "
                    "object graph, walked in the pickling process, contains an instance; top_level_item = it is itself "
                    "an item of the pickled bundle; inside_a_dataset = reachable from a Dataset of the bundle",
            "table": table,
            "zero_coverage": zero_cov,
            "wrapper_shapes": len(WRAPPER_SHAPES),
            "wrapper_graphs_not_constructed": fam_lost,
        },
        "unpicklable_library_nodes": unpicklable_nodes,
        "function_objects": {
            "rule": "directed family, every run: each kind of function object (a `def` carrying attributes / wrappers / "
                    "metadata, functools.partial, callable instance, bound / static / class method, builtin, operator "
                    "object, standard-library function) in each function-taking position it can fill, one graph each, "
                    "every protocol, in-process and fresh interpreter; per kind: graphs judged, the positions, graphs "
                    "outside the property because the callable does not pickle on its own, graphs labrea refuses to "
                    "build, witness graphs failing as known finding F33 describes (see known_finding_witnesses)",
            "kinds": fo_cov,
            "positions": [p[0] for p in FO_POSITIONS],
            "graphs": len(fobj),
            "graphs_judged": sum(v["graphs_judged"] for v in fo_cov.values()),
            "process_dependent_kinds": [k["kind"] for k in FO_KINDS if k.get("procdep")],
            "not_picklable_on_their_own": {k: v for k, v in sorted(part_errors.items()) if k.startswith("fo:")},
            "graphs_not_constructed": fo_lost,
            "positions_labrea_refuses_to_build": {f"{k} as {p_}": why for (k, p_), why in FO_NOT_BUILDABLE.items()},
        },
        "known_finding_witnesses": {"F12": {"graphs": n_deco, "failing_as_described": len(f12)},
                                    "F28": {"graphs": n_f28_witnesses, "failing_as_described": len(f28),
                                            "shapes": sorted(F28_WITNESS)},
                                    "F33": {"graphs": n_f33_witnesses, "failing_as_described": len(f33),
                                            "witnesses": f33_seen,
                                            "same_functions_in_other_positions_judged": f33_other},
                                    "listed_for_C20": sorted(listed_known())},
        "outside_property_skipped": skipped_parts,
        "construction_failed": build_failed,
        "samples": samples[:5],
        "distribution": dict(sorted(dist.items())),
    }
    return Exploration(findings, cov)


def replay(ctx: Ctx, payload: Dict[str, Any]) -> int:
    g = payload["graph"]
    protocols = payload.get("protocols") or protocols_for("thorough", True)
    res, verdicts = run_and_judge([g], protocols, f"replay_{os.getpid()}")
    r = res["graphs"].get(g["gid"], {})
    print(f"property C20 replay of graph {g['gid']} ({g.get('note', '')}), protocols {protocols}")
    print("generated module:")
    print("    " + module_src([g]).split("GRAPHS = {}\n", 1)[1].strip().replace("\n", "\n    "))
    if g.get("fo_source"):
        print("where (module prelude, function object kind %s):" % g.get("fo_kind"))
        print("    " + "\n    ".join(g["fo_source"]))
    print("model      :", r.get("model"))
    print("dumps      :", "ok" if not r.get("dump_err") else r.get("dump_err"))
    if r.get("orig"):
        print("original   :", json.dumps(r["orig"])[:1500])
        for key in ("inproc", "fresh"):
            for p, cp in sorted(r.get(key, {}).items()):
                same = cp == r["orig"]
                print(f"copy {key:7s} protocol {p}: {'identical' if same else 'DIFFERENT: ' + first_diff(r['orig'], cp, 'obs')}")
    v = verdicts[g["gid"]]
    if not v:
        print("verdict: the property holds on this input (no finding)")
        return 0
    for kind, what, known in v:
        print(f"verdict: {kind}{' [known finding ' + known + ']' if known else ''}: {what}")
    return 1


if __name__ == "__main__":
    sys.exit(main_check(SPEC, explore, None, replay))

"""C14 — handler scoping.

Lean: lean/LabreaModel/RuntimeSM.lean (state machine of labrea/runtime.py), theorems in
lean/LabreaProps/C14.lean (block_restores, refines_stack, served_by_top, derive_pure, ...).
Tie to the source: random / enumerated / hand-written well-nested histories are executed on the
real `labrea.runtime` (handlers return their tag, request types are fresh subclasses of
`labrea.runtime.Request` per history) and on the model (`drv_runtime`), and compared line by line.
Property oracle on the implementation alone: (1) after every `with` block the thread's current
runtime is the very object (or absence) it was before the block; (2) every request is answered as
a tiny independent stack interpreter (SpecInterp below) says; (3) `handle()` leaves the handler table
of its receiver as it was.

History language (JSON): a history is a list of segments [thread, items]; thread 0 is the main
thread of the runner process (its slot is cleared before every history), threads >= 1 are fresh
`threading.Thread`s living for one history.  items:
  ["c",x] x=current_runtime()      ["n",x,hs] x=Runtime(hs)        ["d",x,y,hs] x=y.handle(hs)
  ["h",x,hs] x=handle(hs)          ["g",ty,h] register default       ["r",ty] run a request of type ty
  ["i",p] inherit(thread p)        ["p"] probe _RUNTIMES.get(thread) ["^"] raise
  ["W",x,items] with x: items      ["Y",items] try: items except Boom: pass
hs = [[ty,h],...].
"""
import sys
from pathlib import Path

sys.path.insert(0, str(Path(__file__).resolve().parent.parent))
from common import *  # noqa: F401,F403

import json
import random
import subprocess
from typing import Any, Dict, List, Optional, Tuple

SPEC = PropSpec(
    pid="C14",
    lean_modules=["LabreaProps.C14"],
    model_files=["LabreaModel/RuntimeSM.lean"],
    drivers=["drv_runtime"],
    trusted_base=[
        "correspondence RuntimeSM <-> labrea/runtime.py is checked by differential execution, not proved",
        "lean/DrvRuntime.lean parser/printer and harness/props/C14.py runner (both unverified glue)",
        "CPython semantics of `with` (__exit__ is called on normal and exceptional exit)",
    ],
    assumptions=[
        "handler bodies are abstracted to tags; a handler that itself enters/leaves runtimes is a nested block of the history",
        "histories are well nested (only `with` is used, never bare __enter__/__exit__)",
        "Runtime.previous (informational field) and the throw-away Runtime() built eagerly by setdefault/get are not modelled",
        "object identities are named (creating thread, serial); Runtime.__init__'s empty _entered is the state invariant 'fresh names have empty stacks'",
    ],
)

NTYPES = 4

# ----------------------------------------------------------------------------- runner (subprocess)

RUNNER = r'''
import sys, json, threading, queue
import labrea.runtime as RT
from labrea.runtime import Request, Runtime

class Boom(Exception):
    pass

MISSING = object()
WAIT = 30.0

class Infra(Exception):
    pass

class Hist:
    def __init__(self, n):
        self.n = n
        self.types = {}
        self.vars = {}
        self.keep = []
        self.items = []          # output items: ("tok", s) | ("id", prefix, obj-or-MISSING)
        self.oracle = []
        self.threads = {}        # id -> Thread object
        self.workers = {}        # id -> (queue)
        self.order = []

    def ty(self, k):
        if k not in self.types:
            # type 3 is a SUBCLASS of type 0 (defined at its first use, possibly after defaults / overrides for type 0
            # exist): a request type of its own — handlers and defaults of an ancestor type do not serve it
            base = self.ty(0) if k == 3 else Request
            self.types[k] = type("Req_%d_%d" % (self.n, k), (base,), {})
        return self.types[k]

    def hs(self, pairs):
        return {self.ty(k): (lambda req, h=h: h) for k, h in pairs}

    def call_handle(self, f, pairs):
        """one override -> the (type, handler) form of handle(); otherwise the mapping form"""
        m = self.hs(pairs)
        if len(m) == 1:
            (cls, h), = m.items()
            return f(cls, h)
        return f(m)

    def thread_obj(self, tid):
        if tid == 0:
            return threading.main_thread()
        if tid not in self.threads:
            q = queue.Queue()
            th = threading.Thread(target=self.worker, args=(q,), daemon=True)
            self.threads[tid] = th
            self.workers[tid] = q
        return self.threads[tid]

    def worker(self, q):
        while True:
            job = q.get()
            if job is None:
                return
            items, done = job
            try:
                self.segment(items)
            finally:
                done.set()

    def probe(self):
        return RT._RUNTIMES.get(threading.current_thread(), MISSING)

    def segment(self, items):
        try:
            self.run_items(items)
        except Boom:
            self.items.append(("tok", "!"))
        except BaseException as e:
            self.items.append(("tok", "CRASH:" + type(e).__name__))

    def guarded(self, f):
        try:
            return True, f()
        except Boom:
            raise
        except Exception as e:
            self.items.append(("tok", "E:" + type(e).__name__))
            return False, None

    def run_items(self, items):
        for it in items:
            k = it[0]
            if k == "c":
                ok, r = self.guarded(RT.current_runtime)
                if ok:
                    self.vars[it[1]] = r; self.keep.append(r)
            elif k == "n":
                ok, r = self.guarded(lambda: Runtime(self.hs(it[2])))
                if ok:
                    self.vars[it[1]] = r; self.keep.append(r)
            elif k == "d":
                if it[2] not in self.vars:
                    self.items.append(("tok", "E:unbound")); continue
                y = self.vars[it[2]]
                before = dict(y.handlers) if hasattr(y, "handlers") else None
                ok, r = self.guarded(lambda: self.call_handle(y.handle, it[3]))
                if ok:
                    self.vars[it[1]] = r; self.keep.append(r)
                    if r is y:
                        self.oracle.append("derive: handle() returned its receiver")
                if before is not None and dict(y.handlers) != before:
                    self.oracle.append("derive: handle() changed the handlers of its receiver")
            elif k == "h":
                cur = self.probe()
                before = dict(cur.handlers) if hasattr(cur, "handlers") else None
                if len(it) > 3:
                    # ["h", x, [], "log"|"cache"]: the library's own context managers (`labrea.logging.disabled()`,
                    # `labrea.cache.disabled()`) are `handle({...})` calls: runtimes derived from the caller's current
                    # runtime AT THE TIME OF THE CALL, with overrides for request types this history does not observe
                    import labrea.logging as _LL, labrea.cache as _LC
                    ok, r = self.guarded(_LL.disabled if it[3] == "log" else _LC.disabled)
                else:
                    ok, r = self.guarded(lambda: self.call_handle(RT.handle, it[2]))
                if ok:
                    self.vars[it[1]] = r; self.keep.append(r)
                    if cur is not MISSING and r is cur:
                        self.oracle.append("derive: handle() returned the current runtime itself")
                if before is not None and dict(cur.handlers) != before:
                    self.oracle.append("derive: handle() changed the handlers of the current runtime")
            elif k == "g":
                cls = self.ty(it[1]); h = it[2]
                self.guarded(lambda: RT.handle_by_default(cls, (lambda req, h=h: h)))
            elif k == "r":
                cls = self.ty(it[1])
                try:
                    v = cls().run()
                    self.items.append(("tok", "s%s" % (v,)))
                except Boom:
                    raise
                except TypeError:
                    self.items.append(("tok", "T"))
                except Exception as e:
                    self.items.append(("tok", "E:" + type(e).__name__))
            elif k == "i":
                p = self.thread_obj(it[1])
                self.guarded(lambda: RT.inherit(p))
            elif k == "p":
                o = self.probe()
                if o is not MISSING:
                    self.keep.append(o)
                self.items.append(("id", "@", o))
            elif k == "^":
                raise Boom()
            elif k == "W":
                if it[1] not in self.vars:
                    self.items.append(("tok", "E:unbound")); continue
                r = self.vars[it[1]]
                before = self.probe()
                entered = False
                try:
                    with r:
                        entered = True
                        self.run_items(it[2])
                except Boom:
                    self.check_restore(before, it[1], "exception")
                    raise
                except Exception as e:
                    self.items.append(("tok", "E:" + type(e).__name__))
                    if entered:
                        self.check_restore(before, it[1], "exception")
                else:
                    self.check_restore(before, it[1], "normal exit")
            elif k == "Y":
                try:
                    self.run_items(it[1])
                except Boom:
                    pass
            else:
                raise ValueError("bad item %r" % (it,))

    def check_restore(self, before, x, how):
        after = self.probe()
        if after is not before:
            def d(o):
                return "no runtime" if o is MISSING else ("the value None" if o is None else "a runtime")
            a, b = d(after), d(before)
            if a == b:
                a = "a different runtime"
            self.oracle.append("restore: after leaving `with v%d` (%s) thread %s has %s as its current runtime; "
                               "before the block it had %s" % (x, how, threading.current_thread().name, a, b))

    def run(self, segs):
        RT._RUNTIMES.pop(threading.main_thread(), None)
        for tid, items in segs:
            if tid not in self.order:
                self.order.append(tid)
            self.items.append(("tok", "S%d" % tid))
            if tid == 0:
                self.segment(items)
            else:
                th = self.thread_obj(tid)
                if not th.is_alive() and th.ident is None:
                    th.start()
                done = threading.Event()
                self.workers[tid].put((items, done))
                if not done.wait(WAIT):
                    raise Infra("segment timed out")
        for tid in self.order:
            o = RT._RUNTIMES.get(self.thread_obj(tid), MISSING)
            self.items.append(("id", "F%d=" % tid, o))
        # stop workers, clean global tables
        for tid, q in self.workers.items():
            q.put(None)
        for tid, th in self.threads.items():
            if th.ident is not None:
                th.join(WAIT)
            RT._RUNTIMES.pop(th, None)
        RT._RUNTIMES.pop(threading.main_thread(), None)
        for cls in self.types.values():
            RT._DEFAULT_HANDLERS.pop(cls, None)

    def render(self):
        names = {}
        for x in sorted(self.vars):
            names.setdefault(id(self.vars[x]), "v%d" % x)
        anon = []
        out = []
        for it in self.items:
            if it[0] == "tok":
                out.append(it[1])
            else:
                _, pre, o = it
                if o is MISSING:
                    out.append(pre + "-")
                elif o is None:
                    out.append(pre + "None")
                elif id(o) in names:
                    out.append(pre + names[id(o)])
                else:
                    if id(o) not in anon:
                        anon.append(id(o)); self.keep.append(o)
                    out.append(pre + "a%d" % anon.index(id(o)))
        return " ".join(out)


def anchors():
    """cache.disabled() / logging.disabled() are runtimes derived via handle(): scoping holds for them.
    Identity is read from the thread's slot (`_RUNTIMES`), as in the histories."""
    import labrea.cache as C, labrea.logging as L
    bad = []
    def slot():
        return RT._RUNTIMES.get(threading.current_thread(), MISSING)
    def body():
        RT.current_runtime()
        base = slot()
        h_log = base.handlers.get(L.LogRequest)
        snap = dict(base.handlers)
        try:
            with C.disabled():
                r1 = slot()
                if r1 is base or r1 is MISSING:
                    bad.append("anchors: cache.disabled() is not current inside its block"); return
                if r1.handlers.get(C.CacheGetRequest) is not C._disabled_get_cache_handler:
                    bad.append("anchors: cache.disabled() does not serve CacheGetRequest inside its block")
                if r1.handlers.get(L.LogRequest) is not h_log:
                    bad.append("anchors: cache.disabled() changed the LogRequest handler")
                with L.disabled():
                    r2 = slot()
                    if r2.handlers.get(L.LogRequest) is not L._disabled_logging_handler:
                        bad.append("anchors: logging.disabled() does not serve LogRequest inside its block")
                    if r2.handlers.get(C.CacheGetRequest) is not C._disabled_get_cache_handler:
                        bad.append("anchors: nested logging.disabled() lost the cache.disabled() handlers")
                    with r1:
                        if slot() is not r1:
                            bad.append("anchors: re-entered runtime is not current")
                    if slot() is not r2:
                        bad.append("anchors: leaving a re-entered runtime did not restore the inner one")
                if slot() is not r1:
                    bad.append("anchors: leaving logging.disabled() did not restore cache.disabled()")
                raise Boom()
        except Boom:
            pass
        if slot() is not base:
            bad.append("anchors: leaving cache.disabled() by exception did not restore the base runtime")
        if dict(base.handlers) != snap:
            bad.append("anchors: disabled() altered the runtime it derives from")
    th = threading.Thread(target=body); th.start(); th.join(WAIT)
    body()
    def fresh():
        r = Runtime()
        with r:
            pass
        if slot() is not MISSING:
            bad.append("anchors: a thread without runtime has a slot after `with Runtime(): pass`")
    th = threading.Thread(target=fresh); th.start(); th.join(WAIT)
    return bad


def main():
    n = 0
    for line in sys.stdin:
        line = line.strip()
        if not line:
            continue
        n += 1
        if line == "ANCHORS":
            try:
                bad = anchors()
            except Exception as e:
                bad = ["anchors: crashed with " + type(e).__name__]
            print(json.dumps({"obs": "ANCHORS", "oracle": bad})); continue
        h = Hist(n)
        try:
            h.run(json.loads(line))
            print(json.dumps({"obs": h.render(), "oracle": h.oracle}))
        except Infra as e:
            print(json.dumps({"infra": str(e)})); sys.stdout.flush(); sys.exit(3)
        sys.stdout.flush()

main()
'''

# ----------------------------------------------------------------------------- history utilities

def ser_hs(hs) -> List[str]:
    out = [str(len(hs))]
    for ty, h in hs:
        out += [str(ty), str(h)]
    return out


def ser_items(items) -> List[str]:
    """items -> block tokens (continuation style of the Lean `Block`)"""
    out: List[str] = []
    for it in items:
        k = it[0]
        if k == "c":
            out += ["c", str(it[1])]
        elif k == "n":
            out += ["n", str(it[1])] + ser_hs(it[2])
        elif k == "d":
            out += ["d", str(it[1]), str(it[2])] + ser_hs(it[3])
        elif k == "h":
            out += ["h", str(it[1])] + ser_hs(it[2])
        elif k == "g":
            out += ["g", str(it[1]), str(it[2])]
        elif k == "r":
            out += ["r", str(it[1])]
        elif k == "i":
            out += ["i", str(it[1])]
        elif k == "p":
            out += ["p"]
        elif k == "^":
            out += ["^"]
            return out            # nothing after a raise is reachable
        elif k == "W":
            out += ["W", str(it[1])] + ser_items(it[2])
        elif k == "Y":
            out += ["Y"] + ser_items(it[1])
        else:
            raise ValueError(it)
    out.append(".")
    return out


def ser_history(segs) -> str:
    out: List[str] = []
    for tid, items in segs:
        out += ["S", str(tid)] + ser_items(items)
    return " ".join(out)


class Unbound(Exception):
    pass


class _Boom(Exception):
    pass


class SpecInterp:
    """The property's own statement as a tiny stack interpreter, independent of labrea and of the Lean
    model.  A runtime is the dict of handlers it was GIVEN (overrides, inherited through handle());
    each thread has a current runtime (or None); `with` saves the current one on the Python call
    stack and puts it back on the way out.  A request of type ty is answered by the handler the
    current runtime was given for ty; else by "the default registered for that type, whenever it
    was registered": if several defaults were registered for ty over time the text does not say
    which one (the code uses the one snapshotted when the runtime was created; the Lean model pins
    that down), so any of them is accepted; else TypeError."""

    def __init__(self):
        self.defaults: Dict[int, List[int]] = {}
        self.vars: Dict[int, dict] = {}
        self.cur: Dict[int, Optional[dict]] = {}
        self.served: List[List[str]] = []

    def top(self, t):
        if self.cur.get(t) is None:
            self.cur[t] = {}
        return self.cur[t]

    def items(self, t, items):
        for it in items:
            k = it[0]
            if k == "c":
                self.vars[it[1]] = self.top(t)
            elif k == "n":
                self.vars[it[1]] = dict(map(tuple, it[2]))
            elif k == "d":
                if it[2] not in self.vars:
                    raise Unbound()
                self.vars[it[1]] = {**self.vars[it[2]], **dict(map(tuple, it[3]))}
            elif k == "h":
                self.vars[it[1]] = {**self.top(t), **dict(map(tuple, it[2]))}
            elif k == "g":
                self.defaults.setdefault(it[1], []).append(it[2])
            elif k == "r":
                top = self.top(t)
                if it[1] in top:
                    self.served.append(["s%d" % top[it[1]]])
                elif self.defaults.get(it[1]):
                    self.served.append(sorted({"s%d" % h for h in self.defaults[it[1]]}))
                else:
                    self.served.append(["T"])
            elif k == "i":
                p = self.cur.get(it[1])
                self.cur[t] = p if p is not None else {}
            elif k == "p":
                pass
            elif k == "^":
                raise _Boom()
            elif k == "W":
                if it[1] not in self.vars:
                    raise Unbound()
                saved = self.cur.get(t)
                self.cur[t] = self.vars[it[1]]
                try:
                    self.items(t, it[2])
                finally:
                    self.cur[t] = saved
            elif k == "Y":
                try:
                    self.items(t, it[1])
                except _Boom:
                    pass

    def run(self, segs) -> List[List[str]]:
        for t, items in segs:
            try:
                self.items(t, items)
            except _Boom:
                pass
        return self.served


def spec_served(segs) -> Optional[List[List[str]]]:
    try:
        return SpecInterp().run(segs)
    except Unbound:
        return None


def served_of(line: str) -> List[str]:
    return [t for t in line.split() if t == "T" or t.startswith("E:") or t.startswith("CRASH")
            or (t.startswith("s") and t[1:].lstrip("-").isdigit())]


# ----------------------------------------------------------------------------- generators

class Gen:
    def __init__(self, rng: random.Random, max_items: int, max_depth: int, threads: List[int]):
        self.rng = rng
        self.budget = max_items
        self.max_depth = max_depth
        self.threads = threads
        self.nvar = 0
        self.bound: List[int] = []
        self.active: List[int] = []     # vars of the enclosing with blocks (for re-entry)
        self.tag = 0

    def fresh(self) -> int:
        self.nvar += 1
        return self.nvar - 1

    def hs(self):
        n = self.rng.choice([0, 1, 1, 2, 2, 3])
        tys = self.rng.sample(range(NTYPES), min(n, NTYPES))
        out = []
        for ty in tys:
            self.tag += 1
            out.append([ty, self.tag])
        return out

    def block(self, depth: int, in_try: bool) -> Tuple[list, bool]:
        items: list = []
        n = self.rng.randint(1, 6)
        if depth == 0 and not self.bound:
            # make sure there is something to enter
            for _ in range(self.rng.randint(1, 3)):
                x = self.fresh()
                items.append(self.rng.choice([["h", x, self.hs()], ["n", x, self.hs()], ["c", x]]))
                self.bound.append(x)
        for _ in range(n):
            if self.budget <= 0:
                break
            self.budget -= 1
            r = self.rng.random()
            if r < 0.20:
                items.append(["r", self.rng.randrange(NTYPES)])
            elif r < 0.27:
                x = self.fresh(); items.append(["h", x, self.hs()]); self.bound.append(x)
            elif r < 0.30:
                x = self.fresh(); items.append(["h", x, [], self.rng.choice(["log", "cache"])]); self.bound.append(x)
            elif r < 0.36:
                x = self.fresh(); items.append(["n", x, self.hs()]); self.bound.append(x)
            elif r < 0.43 and self.bound:
                x = self.fresh(); items.append(["d", x, self.rng.choice(self.bound), self.hs()]); self.bound.append(x)
            elif r < 0.47:
                x = self.fresh(); items.append(["c", x]); self.bound.append(x)
            elif r < 0.52:
                self.tag += 1
                items.append(["g", self.rng.randrange(NTYPES), self.tag])
            elif r < 0.56:
                items.append(["p"])
            elif r < 0.58:
                items.append(["i", self.rng.choice(self.threads + [7])])
            elif r < 0.83 and depth < self.max_depth and self.bound:
                if self.active and self.rng.random() < 0.3:
                    x = self.rng.choice(self.active)          # re-enter an active object
                else:
                    x = self.rng.choice(self.bound)
                self.active.append(x)
                body, raised = self.block(depth + 1, in_try)
                self.active.pop()
                items.append(["W", x, body])
                if raised:
                    return items, True
            elif r < 0.90 and depth < self.max_depth:
                body, _ = self.block(depth + 1, True)
                items.append(["Y", body])
            elif r < 0.96 and (in_try or self.rng.random() < 0.15):
                items.append(["^"])
                return items, True
            else:
                items.append(["r", self.rng.randrange(NTYPES)])
        return items, False

    def history(self):
        segs = []
        nseg = self.rng.choice([1, 1, 1, 2, 2, 3])
        for _ in range(nseg):
            t = self.rng.choice(self.threads)
            self.active = []
            items, _ = self.block(0, False)
            items.append(["p"])
            segs.append([t, items])
        return segs


def corpus() -> List[Tuple[str, list]]:
    T0, T1 = 0, 1
    c: List[Tuple[str, list]] = []
    for t in (0, 1):
        w = "main" if t == 0 else "fresh-thread"
        c += [
            (f"nested twice, raise in the inner block, caught outside both [{w}]",
             [[t, [["g", T0, 1], ["h", 0, [[T0, 2]]], ["h", 1, [[T0, 3]]], ["p"],
                   ["Y", [["W", 0, [["r", T0], ["W", 1, [["r", T0], ["^"]]]]]]], ["p"], ["r", T0]]]]),
            (f"the library's own context managers under two different handler contexts [{w}]",
             [[t, [["g", T0, 1], ["h", 0, [[T0, 2]]], ["W", 0, [["h", 1, [], "log"], ["W", 1, [["r", T0]]], ["r", T0]]],
                   ["h", 2, [[T0, 3]]], ["W", 2, [["h", 3, [], "log"], ["W", 3, [["r", T0], ["p"]]],
                                                  ["h", 4, [], "cache"], ["W", 4, [["r", T0]]], ["r", T0]]],
                   ["h", 5, [], "cache"], ["W", 5, [["r", T0]]], ["p"]]]]),
            (f"re-enter an active object [{w}]",
             [[t, [["c", 0], ["h", 1, [[T0, 5]]], ["W", 1, [["W", 1, [["r", T0]]], ["r", T0], ["p"]]], ["p"], ["r", T0]]]]),
            (f"re-enter the base runtime itself [{w}]",
             [[t, [["c", 0], ["W", 0, [["W", 0, [["p"]]], ["p"]]], ["p"]]]]),
            (f"enter with no runtime yet, leave: no runtime again [{w}]",
             [[t, [["n", 0, [[T0, 4]]], ["p"], ["W", 0, [["r", T0], ["p"]]], ["p"], ["r", T0], ["p"]]]]),
            (f"enter with no runtime yet, leave by exception [{w}]",
             [[t, [["n", 0, [[T0, 4]]], ["Y", [["W", 0, [["r", T0], ["^"]]]]], ["p"]]]]),
            (f"re-entry from no runtime: inner exit restores the object, outer exit removes the slot [{w}]",
             [[t, [["n", 0, []], ["W", 0, [["W", 0, [["p"]]], ["p"]]], ["p"]]]]),
            (f"default registered after the runtime was created [{w}]",
             [[t, [["c", 0], ["r", T0], ["g", T0, 9], ["r", T0], ["n", 1, []], ["g", T1, 8], ["W", 1, [["r", T1], ["r", T0]]]]]]),
            (f"default re-registered after a snapshot: the runtime keeps its snapshot [{w}]",
             [[t, [["g", T0, 1], ["n", 0, []], ["g", T0, 2], ["W", 0, [["r", T0]]], ["r", T0]]]]),
            (f"default re-registered after a runtime was derived: the derived runtime keeps the snapshot taken at derivation [{w}]",
             [[t, [["c", 0], ["g", T0, 1], ["h", 1, []], ["d", 2, 0, [[T1, 5]]], ["g", T0, 2], ["W", 1, [["r", T0]]],
                   ["W", 2, [["r", T0], ["r", T1]]], ["r", T0]]]]),
            (f"derive does not alter its receiver [{w}]",
             [[t, [["n", 0, [[T0, 1]]], ["d", 1, 0, [[T0, 2], [T1, 3]]], ["W", 0, [["r", T0], ["r", T1]]],
                   ["W", 1, [["r", T0], ["r", T1]]], ["W", 0, [["r", T0], ["r", T1]]]]]]),
            (f"handle() inside a block derives from the entered runtime [{w}]",
             [[t, [["n", 0, [[T0, 1]]], ["W", 0, [["h", 1, [[T1, 2]]], ["W", 1, [["r", T0], ["r", T1]]], ["r", T1]]], ["W", 1, [["r", T0]]]]]]),
            (f"handle() with no runtime allocates the base, which stays [{w}]",
             [[t, [["p"], ["h", 0, [[T0, 1]]], ["p"], ["W", 0, [["r", T0]]], ["p"]]]]),
            (f"exception through three levels [{w}]",
             [[t, [["n", 0, [[T0, 1]]], ["n", 1, [[T0, 2]]], ["n", 2, [[T0, 3]]],
                   ["Y", [["W", 0, [["W", 1, [["W", 2, [["r", T0], ["^"]]]]]]]]], ["p"], ["r", T0]]]]),
            (f"uncaught exception leaves the segment [{w}]",
             [[t, [["n", 0, [[T0, 1]]], ["W", 0, [["W", 0, [["^"]]]]]]], [t, [["p"]]]]),
            (f"inherit inside a block is undone by leaving it [{w}]",
             [[t, [["n", 0, [[T0, 1]]], ["c", 1], ["W", 0, [["i", 7], ["p"], ["r", T0]]], ["p"]]]]),
        ]
    c += [
        ("runtime made in another thread and inside another block",
         [[1, [["n", 0, [[T0, 1]]], ["W", 0, [["h", 1, [[T1, 2]]]]]]], [2, [["W", 1, [["r", T0], ["r", T1], ["p"]]], ["p"]]],
          [0, [["W", 1, [["W", 0, [["r", T1]]]]], ["p"]]]]),
        ("inherit from main, from a finished thread, from a thread that never ran",
         [[0, [["h", 0, [[T0, 1]]], ["i", 0]]], [1, [["i", 0], ["p"], ["r", T0], ["n", 1, [[T0, 2]]], ["W", 1, [["p"]]], ["p"]]],
          [2, [["i", 1], ["p"], ["i", 7], ["p"]]]]),
        ("same object entered by two threads one after the other",
         [[1, [["n", 0, [[T0, 1]]], ["W", 0, [["r", T0]]], ["p"]]], [2, [["c", 1], ["W", 0, [["r", T0]]], ["p"]]], [1, [["W", 0, [["p"]]], ["p"]]]]),
    ]
    return c


def enumerate_small(max_items: int, limit: int, rng: random.Random) -> List[list]:
    """all block trees with <= max_items items over a small alphabet (one type, bound vars only)"""
    out: List[list] = []

    def ext(items_so_far: list, bound: List[int], nvar: int, left: int, depth: int, in_try: bool, sink):
        sink(items_so_far, bound, nvar, left, False)
        if left == 0:
            return
        alphabet = [("r",), ("g",), ("p",), ("h",), ("n",), ("c",)]
        for (k,) in alphabet:
            if k == "r":
                ext(items_so_far + [["r", 0]], bound, nvar, left - 1, depth, in_try, sink)
            elif k == "g":
                ext(items_so_far + [["g", 0, 50 + left]], bound, nvar, left - 1, depth, in_try, sink)
            elif k == "p":
                ext(items_so_far + [["p"]], bound, nvar, left - 1, depth, in_try, sink)
            elif k == "h":
                ext(items_so_far + [["h", nvar, [[0, 10 + nvar]]]], bound + [nvar], nvar + 1, left - 1, depth, in_try, sink)
            elif k == "n":
                ext(items_so_far + [["n", nvar, [[0, 20 + nvar]]]], bound + [nvar], nvar + 1, left - 1, depth, in_try, sink)
            elif k == "c":
                ext(items_so_far + [["c", nvar]], bound + [nvar], nvar + 1, left - 1, depth, in_try, sink)
        if in_try:
            sink(items_so_far + [["^"]], bound, nvar, left - 1, True)
        if depth < 2:
            for x in sorted(set(bound[:1] + bound[-1:])):
                def after_body(body, b2, nv2, left2, raised, x=x):
                    if raised:
                        sink(items_so_far + [["W", x, body]], b2, nv2, left2, True)
                    else:
                        ext(items_so_far + [["W", x, body]], b2, nv2, left2, depth, in_try, sink)
                ext([], bound, nvar, left - 1, depth + 1, in_try, after_body)

            def after_try(body, b2, nv2, left2, raised):
                ext(items_so_far + [["Y", body]], b2, nv2, left2, depth, in_try, sink)
            if not in_try:
                ext([], bound, nvar, left - 1, depth + 1, True, after_try)

    seen = set()

    def top(items, bound, nvar, left, raised):
        key = json.dumps(items)
        if key not in seen and items:
            seen.add(key)
            out.append(items)

    ext([], [], 0, max_items, 0, False, top)
    if len(out) > limit:
        out = rng.sample(out, limit)
    return out


# ----------------------------------------------------------------------------- running

def run_impl(histories: List[str]) -> List[Dict[str, Any]]:
    try:
        r = sh([PY, "-B", "-c", RUNNER], inp="\n".join(histories) + "\n", timeout=1500,
               env={"PYTHONPATH": str(REPO), "PYTHONHASHSEED": "0"})
    except subprocess.TimeoutExpired:
        raise Infra("C14 runner timed out")
    lines = [l for l in r.stdout.splitlines() if l.strip()]
    if r.returncode != 0 or len(lines) != len(histories):
        raise Infra(f"C14 runner failed rc={r.returncode} lines={len(lines)}/{len(histories)}: {r.stderr[-1500:]}")
    return [json.loads(l) for l in lines]


def run_model(histories: List[list]) -> List[str]:
    out = run_driver("drv_runtime", [ser_history(h) for h in histories], args=["c14"])
    if len(out) != len(histories):
        raise Infra(f"drv_runtime returned {len(out)} lines for {len(histories)} histories")
    return out


def judge(segs, impl: Dict[str, Any], model: str) -> List[Tuple[str, str]]:
    """-> list of (kind, what)"""
    res: List[Tuple[str, str]] = []
    for o in impl["oracle"]:
        res.append(("failing-input", o))
    spec = spec_served(segs)
    got = served_of(impl["obs"])
    if spec is not None and (len(got) != len(spec) or any(g not in allowed for g, allowed in zip(got, spec))):
        shown = [a[0] if len(a) == 1 else "|".join(a) for a in spec]
        res.append(("failing-input", f"served: requests were answered {got}, the stack specification says {shown}"))
    if impl["obs"] != model:
        res.append(("correspondence", f"model and implementation disagree: impl `{impl['obs']}` model `{model}`"))
    return res


def variants(segs) -> List[list]:
    """one-step simplifications of a history"""
    out = []

    def rec(items):
        res = []
        for i, it in enumerate(items):
            res.append(items[:i] + items[i + 1:])
            if it[0] == "W":
                res.append(items[:i] + it[2] + items[i + 1:])
                for b in rec(it[2]):
                    res.append(items[:i] + [["W", it[1], b]] + items[i + 1:])
            elif it[0] == "Y":
                res.append(items[:i] + it[1] + items[i + 1:])
                for b in rec(it[1]):
                    res.append(items[:i] + [["Y", b]] + items[i + 1:])
            elif it[0] in ("n", "d", "h") and it[-1]:
                res.append(items[:i] + [it[:-1] + [it[-1][:-1]]] + items[i + 1:])
        return res

    for s in range(len(segs)):
        if len(segs) > 1:
            out.append(segs[:s] + segs[s + 1:])
        for b in rec(segs[s][1]):
            out.append(segs[:s] + [[segs[s][0], b]] + segs[s + 1:])
        if segs[s][0] not in (0, 1):
            out.append(segs[:s] + [[1, segs[s][1]]] + segs[s + 1:])
    return [v for v in out if spec_served(v) is not None]


def shrink(segs, kind: str, what_prefix: str, rounds: int = 12) -> list:
    cur = segs
    for _ in range(rounds):
        vs = variants(cur)[:200]
        if not vs:
            break
        impl = run_impl([json.dumps(v) for v in vs])
        model = run_model(vs)
        nxt = None
        for v, im, mo in zip(vs, impl, model):
            js = judge(v, im, mo)
            if any(k == kind and w.split(":")[0] == what_prefix for k, w in js):
                nxt = v
                break
        if nxt is None:
            break
        cur = nxt
    return cur


def classify(payload: Dict[str, Any]) -> Optional[str]:
    return None


def evaluate(histories: List[list]) -> List[List[Tuple[str, str]]]:
    impl = run_impl([json.dumps(h) for h in histories])
    model = run_model(histories)
    return [judge(h, im, mo) for h, im, mo in zip(histories, impl, model)], impl, model


def nontrivial(segs) -> bool:
    """rule: at least one `with` block and one request inside some block"""
    def has(items, inside):
        for it in items:
            if it[0] == "r" and inside:
                return True
            if it[0] == "W" and has(it[2], True):
                return True
            if it[0] == "Y" and has(it[1], inside):
                return True
        return False
    return any(has(items, False) for _, items in segs)


def histogram(hists: List[list]) -> Dict[str, Any]:
    ops: Dict[str, int] = {}
    depth_h: Dict[str, int] = {}
    feats = {"raising": 0, "reentry": 0, "fresh_thread": 0, "main_thread": 0, "multi_thread": 0,
             "late_default": 0, "uncaught": 0}

    def walk(items, active, d):
        md = d
        for it in items:
            ops[it[0]] = ops.get(it[0], 0) + 1
            if it[0] == "W":
                if it[1] in active:
                    feats["reentry"] += 1
                md = max(md, walk(it[2], active + [it[1]], d + 1))
            elif it[0] == "Y":
                md = max(md, walk(it[1], active, d))
            elif it[0] == "^":
                feats["raising"] += 1
        return md

    for h in hists:
        ths = {t for t, _ in h}
        feats["main_thread"] += 0 in ths
        feats["fresh_thread"] += bool(ths - {0})
        feats["multi_thread"] += len(ths) > 1
        seen_alloc = False
        for _, items in h:
            d = walk(items, [], 0)
            depth_h[str(d)] = depth_h.get(str(d), 0) + 1
        flat = json.dumps(h)
        if '"g"' in flat and ('"c"' in flat or '"n"' in flat):
            feats["late_default"] += 1
    return {"operations": ops, "max_depth": depth_h, "features": feats}


def explore(ctx: Ctx) -> Exploration:
    rng = random.Random(ctx.seed)
    thorough = ctx.tier == "thorough"
    hists: List[list] = []
    labels: List[str] = []
    for name, h in corpus():
        hists.append(h); labels.append("corpus: " + name)
    small = enumerate_small(5 if thorough else 4, 10 ** 9, rng)
    for items in small:
        t = rng.choice([0, 1])
        hists.append([[t, items + [["p"]]]]); labels.append("enumerated")
    nrand = 60000 if thorough else 5000
    for _ in range(nrand):
        g = Gen(rng, max_items=rng.choice([6, 12, 25, 40]), max_depth=rng.choice([2, 3, 4, 5]),
                threads=rng.choice([[0], [1], [1], [0, 1], [1, 2], [0, 1, 2]]))
        hists.append(g.history()); labels.append("random")

    findings: List[Finding] = []
    seen_kinds = set()
    CH = 4000
    evaluations = 0
    err_hist: Dict[str, int] = {}
    # anchors: cache.disabled() / logging.disabled()
    a = run_impl(["ANCHORS"])[0]
    for o in sorted(set(a["oracle"])):
        findings.append(Finding("failing-input", o, {"anchors": True}))
    for i in range(0, len(hists), CH):
        chunk = hists[i:i + CH]
        judged, impl, model = evaluate(chunk)
        evaluations += len(chunk)
        for j, (h, js) in enumerate(zip(chunk, judged)):
            for tok in impl[j]["obs"].split():
                if tok == "T" or tok.startswith("E:") or tok == "!" or tok.startswith("CRASH"):
                    err_hist[tok] = err_hist.get(tok, 0) + 1
            for kind, what in js:
                key = (kind, what.split(":")[0])
                if key in seen_kinds:
                    continue
                seen_kinds.add(key)
                small_h = shrink(h, kind, what.split(":")[0])
                im = run_impl([json.dumps(small_h)])[0]
                mo = run_model([small_h])[0]
                w2 = [w for k, w in judge(small_h, im, mo) if k == kind and w.split(":")[0] == what.split(":")[0]]
                findings.append(Finding(kind, w2[0] if w2 else what,
                                        {"history": small_h, "tokens": ser_history(small_h), "impl": im["obs"],
                                         "model": mo, "spec_served": spec_served(small_h), "oracle": im["oracle"],
                                         "origin": labels[i + j], "unshrunk": h}))
        if len(findings) >= 6:
            break
    for f in findings:
        f.known_id = classify(f.payload)
    distinct = {json.dumps(h) for h in hists[:evaluations]}
    nt = {k for k in distinct if nontrivial(json.loads(k))}
    cov = {
        "evaluations": evaluations + 1,
        "distinct_nontrivial": len(nt),
        "rule": "a history is non-trivial if some request runs inside some `with` block",
        "programs": len(distinct),
        "disagreements_checked": evaluations,
        "samples": [ser_history(h) for h in (hists[0], hists[3], hists[len(corpus()) + 5], hists[-1], hists[-2])],
        "distribution": {**histogram(hists[:evaluations]), "outcomes": err_hist,
                         "sources": {"corpus": len(corpus()), "enumerated": len(small), "random": nrand, "anchors": 1}},
    }
    return Exploration(findings, cov)


def failing_input_search(ctx: Ctx, why: str) -> List[Finding]:
    """bigger random budget, oracle only"""
    rng = random.Random(ctx.seed + 7919)
    hists = []
    for _ in range(6000):
        g = Gen(rng, max_items=rng.choice([12, 25, 40]), max_depth=rng.choice([2, 3, 4]),
                threads=rng.choice([[0], [1], [0, 1], [1, 2]]))
        hists.append(g.history())
    judged, impl, model = evaluate(hists)
    for h, js in zip(hists, judged):
        for kind, what in js:
            if kind == "failing-input":
                small_h = shrink(h, kind, what.split(":")[0])
                im = run_impl([json.dumps(small_h)])[0]
                return [Finding(kind, what, {"history": small_h, "tokens": ser_history(small_h), "impl": im["obs"],
                                             "model": run_model([small_h])[0], "spec_served": spec_served(small_h),
                                             "oracle": im["oracle"]})]
    return []


def replay(ctx: Ctx, payload: Dict[str, Any]) -> int:
    if payload.get("anchors"):
        a = run_impl(["ANCHORS"])[0]
        print("anchors oracle:", a["oracle"] or "ok")
        return 1 if a["oracle"] else 0
    h = payload["history"]
    im = run_impl([json.dumps(h)])[0]
    mo = run_model([h])[0]
    print("history :", json.dumps(h))
    print("tokens  :", ser_history(h))
    print("impl    :", im["obs"])
    print("model   :", mo)
    print("spec    :", spec_served(h))
    print("oracle  :", im["oracle"])
    js = judge(h, im, mo)
    for k, w in js:
        print(f"FAIL [{k}] {w}")
    if not js:
        print("verdict : agrees with the model and satisfies the property")
    return 1 if js else 0


if __name__ == "__main__":
    sys.exit(main_check(SPEC, explore, failing_input_search, replay))

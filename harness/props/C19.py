"""C19 — dataset classes: members are evaluations; equality follows the relevant options.

Correspondence: generated dataset classes (built with `labrea.datasetclass` from `type(...)` /
`exec` of a class body; options with flat / dotted keys and constant defaults, constants,
`@dataset` members reading options, members inherited from a plain base class or from another
dataset class, `__`-members) x pairs of option dictionaries, run on the real code and on the Lean
model (`drv_dsclass`); observations: instance attributes, `repr`, `==`, class `keys / explain /
validate` outcomes.

Property oracle (implementation alone): attributes equal the member-wise evaluation; class
keys/explain/validate are the union/conjunction over the members; `(a == b) ==
(restrict(o1, keys1) == restrict(o2, keys2))` with an independent `restrict`; repr shows exactly the
restricted dictionary; inputs are never mutated and an instance does not change when the caller
later writes into the dictionary it was built from.

Histories (every tier, see the HISTORIES section): families of related dataset classes (a base, classes
derived from it that add / redefine members, two levels, siblings) with keys / validate / explain /
instantiate / repr / == on the different classes interleaved in every order, given fresh dictionaries,
one dictionary object reused unchanged, and one dictionary edited in place between the calls.  The
outcome of an operation is a function of (class, dictionary contents): every step must equal the same
operation done first on a freshly built copy of the family with a fresh, equal dictionary, the union
over the class's OWN members asked alone, and the model's answer.  Counts: coverage.histories.

Value kinds (every tier, see RICH_BASE / lookalikes / value_cases / rich_val): the option dictionaries hold every
kind of value a Python caller can put there and that `==` / `repr` tell apart - tuples (empty, nested, holding lists /
dicts), namedtuples (two types with equal items), lists against tuples with equal items, sets / frozensets, bytes
against str, floats (`1.0` / `1` / `True`, `0.0` / `-0.0` / `0` / `False`, inf), ints beyond 2**53, `None` against a
missing key, containers nesting these, user objects with their own `__eq__` / `__repr__` (`Tag`: equal regardless of case;
`Box`: mutable, holds a sequence) - under plain keys, dotted keys, inside a section read as a whole, inside lists, as
defaults and as plain members.  A directed family pairs every base value with an equal copy and with each of its
look-alikes (same items in another container type, same number in another type, ...); a random stream builds classes
over dictionaries of such values; the histories run a second time over such dictionaries, edited with look-alikes.
The oracle is the property's and is computed here, independently of labrea: `repr(instance)`, read back as Python
reads it, is `Name(<the options restricted to the reported keys>)` with the SAME TYPES throughout ((1, 5) is not [1, 5],
1 is not True, 0.0 is not -0.0); `a == b` is Python's `==` on the two restricted dictionaries ((1, 5) != [1, 5], 1 == True,
Point(1, 5) == (1, 5) - as Python says); an instance keeps a snapshot (the caller editing lists / sets / Boxes inside the
values afterwards changes neither).  VALUES OUTSIDE THE MODEL: LabreaModel/Value.lean has None, booleans, integers, strings,
one sequence type and dictionaries, and no cross-type equality; a case or history step whose dictionaries or defaults hold
a tuple, namedtuple, set, frozenset, bytes, float, big int, user object or the ints 0 / 1 is not sent to drv_dsclass and is
judged by this oracle alone (coverage.values_outside_the_model; counts per kind: coverage.value_kinds).
Observed on the way and NOT judged here (they concern @dataset's cache, not the dataset class; coverage.
observed_outside_this_property): the cache files results under the JSON text of the options, so (1, 5) and [1, 5] share
an entry - attributes of dataset members in history steps where that shows are left out (histories.cache_lookalike_steps) -
and a dataset member cannot be evaluated when a key it reads holds a set / bytes / user object.
"""
import sys
from pathlib import Path
sys.path.insert(0, str(Path(__file__).resolve().parent.parent))
from common import *          # noqa: F401,F403
import ast
import copy
import itertools
import json
import random
from collections import Counter

SPEC = PropSpec(
    pid="C19",
    lean_modules=["LabreaProps.C19"],
    model_files=["LabreaModel/DatasetClass.lean", "LabreaModel/DatasetClassLemmas.lean",
                 "LabreaModel/Dotted.lean", "LabreaModel/Value.lean", "DrvDsclass.lean"],
    drivers=["drv_dsclass"],
    trusted_base=[
        "correspondence between LabreaModel/DatasetClass.lean and labrea/datasetclass.py + Option / "
        "@dataset members (checked differentially by this harness, not proved)",
        "CPython attribute lookup / dir() order / MRO flattening of inherited members (done by the harness)",
        "confectioner get_dotted_key / set_dotted_key as modelled by walk / setPath",
    ],
    assumptions=[
        "reported keys are non-empty, contain no index segment (all-digit) and are present in the options "
        "(`Present`); shown necessary in Lean (repr_options_side_conditions_needed); concrete Option/dataset "
        "members satisfy presence by theorem concrete_present",
        "the MODEL reads option values that are JSON without template braces, ints other than 0/1 (Python's True == 1 is not "
        "modelled); dictionaries holding tuples, namedtuples, sets, frozensets, bytes, floats, ints beyond 2**53, user objects "
        "or 0/1 are judged on the implementation by the property oracle alone (coverage.values_outside_the_model)",
        "abstract members are functions of the options only (no hidden state); dataset caches are value-transparent",
        "`isinstance(other, self.__class__)` is modelled as 'same class' (instances of one class are compared; "
        "a twin class with identical members compares unequal)",
    ],
)

# ----------------------------------------------------------------------------- wire codec
# values: None | bool | int | str | {"l": [...]} | {"d": [[k, v], ...]}   (dicts keep their order)    - what the model reads
#       | {"t": [...]} tuple | {"nt": [type name, [...]]} namedtuple | {"s": [...]} set | {"fs": [...]} frozenset (members
#         in a canonical order) | {"b": hex} bytes | {"f": repr} float | {"big": digits} int beyond 2**53
#       | {"u": ["Tag", label]} / {"u": ["Box", items]} user objects with their own __eq__ / __repr__
# The encoding is faithful on this universe: two values have the same encoding (dict order aside) exactly when Python
# prints them alike and they are of the same types throughout.
CODEC = r"""
import collections as _coll
Point = _coll.namedtuple("Point", "x y")
Span = _coll.namedtuple("Span", "lo hi")
NAMEDTUPLES = {"Point": Point, "Span": Span}

class Tag:
    # a user value: equality ignores the case of the label, repr shows the label as given
    def __init__(self, label):
        self.label = label
    def __eq__(self, other):
        return isinstance(other, Tag) and self.label.lower() == other.label.lower()
    def __ne__(self, other):
        return not self == other
    def __hash__(self):
        return hash(self.label.lower())
    def __repr__(self):
        return "Tag(%r)" % (self.label,)

class Box:
    # a mutable user value holding a sequence; equal when the items are equal
    def __init__(self, items):
        self.items = items
    def __eq__(self, other):
        return isinstance(other, Box) and self.items == other.items
    def __ne__(self, other):
        return not self == other
    __hash__ = None
    def __repr__(self):
        return "Box(%r)" % (self.items,)

def _members(v):
    import json as _json
    return sorted((enc(x) for x in v), key=lambda j: _json.dumps(j, sort_keys=True))

def enc(v):
    if v is None or isinstance(v, (bool, str)):
        return v
    if isinstance(v, int):
        return v if abs(v) < 2 ** 53 else {"big": str(v)}
    if isinstance(v, float):
        return {"f": repr(v)}
    if isinstance(v, bytes):
        return {"b": v.hex()}
    if isinstance(v, list):
        return {"l": [enc(x) for x in v]}
    if isinstance(v, tuple):
        if type(v) is not tuple:
            return {"nt": [type(v).__name__, [enc(x) for x in v]]}
        return {"t": [enc(x) for x in v]}
    if isinstance(v, frozenset):
        return {"fs": _members(v)}
    if isinstance(v, set):
        return {"s": _members(v)}
    if isinstance(v, dict):
        return {"d": [[k, enc(x)] for k, x in v.items()]}
    if isinstance(v, Tag):
        return {"u": ["Tag", v.label]}
    if isinstance(v, Box):
        return {"u": ["Box", enc(v.items)]}
    return {"weird": type(v).__name__}

def dec(j):
    if isinstance(j, dict):
        if "l" in j:
            return [dec(x) for x in j["l"]]
        if "d" in j:
            return {k: dec(x) for k, x in j["d"]}
        if "t" in j:
            return tuple(dec(x) for x in j["t"])
        if "nt" in j:
            return NAMEDTUPLES[j["nt"][0]](*[dec(x) for x in j["nt"][1]])
        if "s" in j:
            return set(dec(x) for x in j["s"])
        if "fs" in j:
            return frozenset(dec(x) for x in j["fs"])
        if "b" in j:
            return bytes.fromhex(j["b"])
        if "f" in j:
            return float(j["f"])
        if "big" in j:
            return int(j["big"])
        if "u" in j:
            return Tag(j["u"][1]) if j["u"][0] == "Tag" else Box(dec(j["u"][1]))
        raise ValueError("cannot decode %r" % (j,))
    return j
"""
exec(CODEC, globals())

# ----------------------------------------------------------------------------- implementation runner
RUNNER = CODEC + r'''
import sys, os, json, ast, logging
sys.path.insert(0, os.environ["VERIF_REPO_PATH"])
logging.disable(logging.CRITICAL)
# every Option evaluation copies os.environ (confectioner's resolve offers it to templates as `@env`); no generated
# value contains a template, so the copy is pure cost: keep the environment of this process small
for _k in list(os.environ):
    if _k not in ("VERIF_REPO_PATH", "PYTHONPATH", "PYTHONHASHSEED", "PATH", "HOME"):
        del os.environ[_k]
from labrea import dataset, datasetclass, Option
from labrea.types import Evaluatable
from labrea.exceptions import EvaluationError, KeyNotFoundError

def canon_exc(e):
    if isinstance(e, KeyNotFoundError):
        return "KeyNotFoundError:" + str(e.key)
    if isinstance(e, EvaluationError):
        root = e
        while (isinstance(root, EvaluationError) and not isinstance(root, KeyNotFoundError)
               and root.__cause__ is not None):
            root = root.__cause__
        if root is e:
            return "EvaluationError<?>"
        return "EvaluationError<" + canon_exc(root) + ">"
    if isinstance(e, (TypeError, AttributeError)):
        return "RawTypeError"
    if isinstance(e, KeyError):
        return "KeyError:" + str(e.args[0])
    return "Other:" + type(e).__name__

def mkopt(s):
    if "d" in s:
        return Option(s["key"], default=dec(s["d"]))
    return Option(s["key"])

def mk(spec):
    k = spec["k"]
    if k == "const":
        v = dec(spec["v"])
        # "tup": the constant is a tuple (immutable itself, its elements need not be)
        return tuple(v) if spec.get("tup") and isinstance(v, list) else v
    if k == "opt":
        return mkopt(spec)
    if k == "ds":
        args = [mkopt(a) for a in spec["args"]]
        params = ", ".join("a%d=_d[%d]" % (i, i) for i in range(len(args)))
        body = "[" + ", ".join("a%d" % i for i in range(len(args))) + "]"
        ns = {"_d": args}
        exec("def dsf(%s):\n    return %s\n" % (params, body), ns)
        return dataset(ns["dsf"])
    raise ValueError(k)

def plain_class(name, bases, members, how):
    """members: [[attr, spec, annotated]]"""
    objs = {n: mk(s) for n, s, _ in members}
    if how == "exec":
        lines = ["class %s(%s):" % (name, ", ".join("_b%d" % i for i in range(len(bases))))]
        for n, _, ann in members:
            lines.append("    %s%s = _m[%r]" % (n, ": object" if ann else "", n))
        if not members:
            lines.append("    pass")
        ns = {"_m": objs}
        ns.update({"_b%d" % i: b for i, b in enumerate(bases)})
        exec("\n".join(lines) + "\n", ns)
        return ns[name], objs
    ns = dict(objs)
    ann = {n: object for n, _, a in members if a}
    if ann:
        ns["__annotations__"] = ann
    return type(name, tuple(bases), ns), objs

def build(case, name):
    how = case.get("build", "type")
    inh = case.get("inherit", "plain")
    objs = {}
    if case["base"]:
        base, bo = plain_class("Base" + name, (), case["base"], how)
        objs.update(bo)
        if inh == "dcsub":
            base = datasetclass(base)
            cls, oo = plain_class(name, (base,), case["own"], how)   # metaclass is inherited
            objs.update(oo)
            return cls, objs
        if inh == "dcboth":
            # a dataset class derived from a dataset class, itself decorated
            base = datasetclass(base)
            cls, oo = plain_class(name, (base,), case["own"], how)
            objs.update(oo)
            return datasetclass(cls), objs
        cls, oo = plain_class(name, (base,), case["own"], how)
    else:
        cls, oo = plain_class(name, (), case["own"], how)
    objs.update(oo)
    return datasetclass(cls), objs

def outcome(f, ok=lambda x: x):
    try:
        return ok(f())
    except Exception as e:
        return {"err": canon_exc(e)}

def editable(x):
    """something inside x can be edited in place by the caller who still holds it"""
    if isinstance(x, (dict, list, set, Box)):
        return True
    if isinstance(x, (tuple, frozenset)):
        return any(editable(y) for y in x)
    return False

def scribble(x):
    """the caller goes on writing into every editable part of a value it handed over"""
    if isinstance(x, dict):
        for k in list(x):
            if editable(x[k]):
                scribble(x[k])
            else:
                x[k] = "scribbled"
        x["scribbled-key"] = 1
    elif isinstance(x, list):
        for i in range(len(x)):
            if editable(x[i]):
                scribble(x[i])
            else:
                x[i] = "scribbled"
        x.append("scribbled")
    elif isinstance(x, (tuple, frozenset)):
        for y in x:
            if editable(y):
                scribble(y)
    elif isinstance(x, set):
        x.add("scribbled")
    elif isinstance(x, Box):
        if editable(x.items):
            scribble(x.items)
        else:
            x.items = "scribbled"

def run(case):
    name = case["name"]
    C, objs = build(case, name)
    Twin, _ = build(case, name + "Twin")
    names = sorted(objs)
    obs, extra = {}, {}
    insts = {}
    opts = {}
    for j in ("1", "2"):
        o = dec(case["o" + j])
        opts[j] = o
        def inst_obs():
            inst = C(o)
            insts[j] = inst
            attrs = []
            for n in names:
                v = getattr(inst, n)
                attrs.append([n, {"unevaluated": True} if isinstance(v, Evaluatable) else enc(v)])
            return {"attrs": attrs, "repr": repr(inst)}
        obs["i" + j] = outcome(inst_obs)
        obs["keys" + j] = outcome(lambda: sorted(C.keys(o)))
        obs["explain" + j] = outcome(lambda: sorted(C.explain(o)))
        obs["validate" + j] = outcome(lambda: C.validate(o), ok=lambda _: "ok")
        mem = {}
        for n in names:
            m = objs[n]
            if isinstance(m, Evaluatable) and not n.startswith("__"):
                mem[n] = {
                    "ev": outcome(lambda: m.evaluate(o), ok=lambda v: {"ok": enc(v)}),
                    "keys": outcome(lambda: sorted(m.keys(o))),
                    "explain": outcome(lambda: sorted(m.explain(o))),
                    "validate": outcome(lambda: m.validate(o), ok=lambda _: "ok"),
                }
        extra["members" + j] = mem
        rd = None
        if j in insts:
            r = repr(insts[j])
            try:
                rd = enc(ast.literal_eval(r[len(name) + 1:-1])) if r.startswith(name + "(") and r.endswith(")") else None
            except Exception:
                rd = None
        extra["reprdict" + j] = rd
    if "1" in insts and "2" in insts:
        obs["eq"] = bool(insts["1"] == insts["2"])
        extra["ne"] = bool(insts["1"] != insts["2"])
    else:
        obs["eq"] = None
        extra["ne"] = None
    if "1" in insts:
        try:
            obs["xeq"] = bool(insts["1"] == Twin(dec(case["o1"])))
        except Exception as e:
            obs["xeq"] = {"err": canon_exc(e)}
    else:
        obs["xeq"] = None
    for j in ("1", "2"):
        extra["mut" + j] = enc(opts[j]) != case["o" + j]
        # an instance must not change when the caller later writes into the dictionary it came from
        fr = None
        if j in insts:
            try:
                o = dec(case["o" + j])
                a = C(o)
                r0 = repr(a)
                scribble(o)
                b = C(dec(case["o" + j]))
                fr = bool(repr(a) == r0 and a == b)
            except Exception as e:
                fr = "err:" + canon_exc(e)
        extra["frozen" + j] = fr
        # "every plain member [is set] to its constant": editing one instance's plain-member values in place (lists,
        # dicts) changes neither the class nor an instance built afterwards
        iso = None
        if j in insts:
            try:
                # only members the `datasetclass` decorator itself wraps (annotated, declared on the decorated class):
                # an un-annotated member, one inherited from an undecorated base, or one added by an undecorated
                # subclass is an ordinary class attribute, shared by Python itself
                dcsub = case.get("inherit") == "dcsub" and case["base"]
                both = case.get("inherit") == "dcboth" and case["base"]
                hidden = {n for n, _, _ in case["own"]} if (dcsub or both) else set()
                decorated = case["base"] if dcsub else (list(case["own"]) + [m for m in case["base"] if m[0] not in hidden] if both else case["own"])
                if both:
                    hidden = set()
                consts = {n: sp["v"] for n, sp, ann in decorated if sp["k"] == "const" and ann and n not in hidden}
                a = C(dec(case["o" + j]))
                for n in consts:
                    v = getattr(a, n)
                    if editable(v):
                        scribble(v)
                c = C(dec(case["o" + j]))
                bad = [[n, enc(getattr(c, n)), consts[n]] for n in sorted(consts) if enc(getattr(c, n)) != consts[n]]
                iso = True if not bad else {"member, value in a later instance, declared constant": bad}
            except Exception as e:
                iso = "err:" + canon_exc(e)
        extra["isolated" + j] = iso
    return {"obs": obs, "extra": extra}

# ---- histories over a family of related dataset classes (see the HISTORIES section of the harness)
import copy as _copy

def build_family(fc):
    """classes in declaration order (a parent precedes its children); effs[c]: attr -> (member object, defining class)"""
    classes, effs = [], []
    for c in fc["classes"]:
        p = c["parent"]
        bases = (classes[p],) if p is not None else ()
        cls, oo = plain_class(c["name"], bases, c["own"], fc.get("build", "type"))
        eff = dict(effs[p]) if p is not None else {}
        for n, m in oo.items():
            eff[n] = (m, len(classes))
        if c.get("deco", True):
            cls = datasetclass(cls)
        classes.append(cls)
        effs.append(eff)
    return classes, effs

def do_op(k, C, o, names):
    if k == "inst":
        try:
            inst = C(o)
            attrs = []
            for n in names:
                v = getattr(inst, n)
                attrs.append([n, {"unevaluated": True} if isinstance(v, Evaluatable) else enc(v)])
            return {"attrs": attrs, "repr": repr(inst)}, inst
        except Exception as e:
            return {"err": canon_exc(e)}, None
    if k == "keys":
        return outcome(lambda: sorted(C.keys(o))), None
    if k == "explain":
        return outcome(lambda: sorted(C.explain(o))), None
    return outcome(lambda: C.validate(o), ok=lambda _: "ok"), None

def edit_in_place(o, op):
    segs = op["key"].split(".")
    if op["op"] == "set":
        for s in segs[:-1]:
            if not isinstance(o.get(s), dict):
                o[s] = {}
            o = o[s]
        o[segs[-1]] = dec(op["v"])
    else:
        try:
            for s in segs[:-1]:
                o = o[s]
            del o[segs[-1]]
        except (KeyError, TypeError):
            pass

# what a class answers when it is asked FIRST THING: a freshly built copy of the whole family, a fresh dictionary.
# One fresh family per (operation, class, contents); shared between the histories of one family.
REF, REFEQ, MEM = {}, {}, {}
NEW = {"refs": 0}

def reference(fk, fc, k, c, snapj):
    key = (fk, k, c, snapj)
    if key not in REF:
        F, effs = build_family(fc)
        REF[key] = do_op(k, F[c], dec(json.loads(snapj)), sorted(effs[c]))[0]
        NEW["refs"] += 1
    return REF[key]

def reference_eq(fk, fc, ca, sa, cb, sb):
    key = (fk, ca, sa, cb, sb)
    if key not in REFEQ:
        F, _ = build_family(fc)
        try:
            a = F[ca](dec(json.loads(sa)))
            b = F[cb](dec(json.loads(sb)))
            REFEQ[key] = {"eq": bool(a == b), "ne": bool(a != b)}
        except Exception:
            REFEQ[key] = None
        NEW["refs"] += 1
    return REFEQ[key]

def members_alone(fk, fc, snapj):
    """every member object of a freshly built family, asked on its own with fresh dictionaries; tag 'definingclass:attr'"""
    key = (fk, snapj)
    if key not in MEM:
        _, effs = build_family(fc)
        snap = json.loads(snapj)
        out = {}
        for eff in effs:
            for n, (m, i) in eff.items():
                tag = "%d:%s" % (i, n)
                if tag in out or not isinstance(m, Evaluatable) or n.startswith("__"):
                    continue
                out[tag] = {
                    "ev": outcome(lambda: m.evaluate(dec(snap)), ok=lambda v: {"ok": enc(v)}),
                    "keys": outcome(lambda: sorted(m.keys(dec(snap)))),
                    "explain": outcome(lambda: sorted(m.explain(dec(snap)))),
                    "validate": outcome(lambda: m.validate(dec(snap)), ok=lambda _: "ok"),
                }
        MEM[key] = out
    return MEM[key]

def run_hist(fc):
    fk = json.dumps([fc.get("build", "type"), fc["classes"]], sort_keys=True)
    NEW["refs"] = 0
    H, effs = build_family(fc)
    names = [sorted(e) for e in effs]
    shared = fc["mode"] == "shared"
    content = [dec(s) for s in fc["slots"]]      # the harness's own shadow of each dictionary's contents
    live = [dec(s) for s in fc["slots"]]         # shared mode: the ONE object handed to every call on that slot
    snaps, snap_ix = [], {}
    def snap_of(s):
        j = json.dumps(enc(content[s]))
        if j not in snap_ix:
            snap_ix[j] = len(snaps)
            snaps.append(j)
        return j
    regs = {}
    steps = []
    for op in fc["ops"]:
        k = op["op"]
        if k in ("set", "del"):
            edit_in_place(content[op["s"]], op)
            edit_in_place(live[op["s"]], op)
            steps.append({"k": k})
        elif k in ("keys", "explain", "validate", "inst"):
            c, s = op["c"], op["s"]
            sj = snap_of(s)
            o = live[s] if shared else _copy.deepcopy(content[s])
            got, inst = do_op(k, H[c], o, names[c])
            if k == "inst":
                regs[op["r"]] = (inst, c, sj)
            steps.append({"k": k, "c": c, "si": snap_ix[sj], "got": got, "ref": reference(fk, fc, k, c, sj),
                          "mut": json.dumps(enc(o)) != sj})
        elif k == "repr":
            inst, c, sj = regs.get(op["r"], (None, None, None))
            ref = None
            if sj is not None:
                ref = reference(fk, fc, "inst", c, sj)
                ref = ref.get("repr") if isinstance(ref, dict) else None
            steps.append({"k": k, "c": c, "si": snap_ix.get(sj), "got": None if inst is None else repr(inst), "ref": ref})
        elif k == "eq":
            ia, ca, sa = regs.get(op["a"], (None, None, None))
            ib, cb, sb = regs.get(op["b"], (None, None, None))
            got = ref = None
            if ia is not None and ib is not None:
                got = {"eq": bool(ia == ib), "ne": bool(ia != ib)}
            if sa is not None and sb is not None:
                ref = reference_eq(fk, fc, ca, sa, cb, sb)
            steps.append({"k": k, "c": ca, "cb": cb, "si": snap_ix.get(sa), "sib": snap_ix.get(sb), "got": got, "ref": ref})
        else:
            raise ValueError(k)
    return {"steps": steps, "snaps": [json.loads(j) for j in snaps],
            "mem": [members_alone(fk, fc, j) for j in snaps], "new_refs": NEW["refs"]}

for line in sys.stdin:
    line = line.strip()
    if not line:
        continue
    case = json.loads(line)
    try:
        print(json.dumps(run_hist(case) if case.get("hist") else run(case)))
    except Exception as e:
        print(json.dumps({"runner_error": type(e).__name__ + ": " + str(e)[:300]}))
'''


def flatten(case):
    """effective members (derived overrides base), as [[attr, spec]]"""
    d = {}
    for n, s, _ in case["base"]:
        d[n] = s
    for n, s, _ in case["own"]:
        d[n] = s
    return [[n, d[n]] for n in d]


# ---- value kinds, and which of them the model can read
# The Lean model (LabreaModel/Value.lean) has None, booleans, integers, strings, ONE sequence type and dictionaries; its
# equality does not identify True with 1.  Everything else a caller can put into an options dictionary is OUTSIDE THE MODEL:
# a case / history step holding such a value is judged by the property oracle alone (coverage.values_outside_the_model).
OUTSIDE_KINDS = ("tuple", "namedtuple", "set", "frozenset", "bytes", "float", "bigint", "user:Tag", "user:Box", "int01")


def kinds_in(j, out=None):
    """the value kinds occurring in a wire value (a Counter)"""
    out = Counter() if out is None else out
    if j is None:
        out["none"] += 1
    elif isinstance(j, bool):
        out["bool"] += 1
    elif isinstance(j, int):
        out["int01" if j in (0, 1) else "int"] += 1
    elif isinstance(j, str):
        out["str"] += 1
    elif "l" in j or "t" in j or "s" in j or "fs" in j:
        tag = next(t for t in ("l", "t", "s", "fs") if t in j)
        out[{"l": "list", "t": "tuple", "s": "set", "fs": "frozenset"}[tag]] += 1
        if tag in ("l", "t") and not j[tag]:
            out["empty-" + ("list" if tag == "l" else "tuple")] += 1
        for x in j[tag]:
            kinds_in(x, out)
    elif "nt" in j:
        out["namedtuple"] += 1
        for x in j["nt"][1]:
            kinds_in(x, out)
    elif "d" in j:
        out["dict"] += 1
        for _, x in j["d"]:
            kinds_in(x, out)
    elif "b" in j:
        out["bytes"] += 1
    elif "f" in j:
        out["float"] += 1
    elif "big" in j:
        out["bigint"] += 1
    elif "u" in j:
        out["user:" + j["u"][0]] += 1
        if j["u"][0] == "Box":
            kinds_in(j["u"][1], out)
    return out


def outside_model(j):
    ks = kinds_in(j)
    return any(ks[k] for k in OUTSIDE_KINDS)


def seq_as_list(j):
    """tuples as the model's one sequence type (for plain members: a tuple CONSTANT is within the model)"""
    if isinstance(j, dict):
        if "t" in j:
            return {"l": [seq_as_list(x) for x in j["t"]]}
        if "l" in j:
            return {"l": [seq_as_list(x) for x in j["l"]]}
        if "d" in j:
            return {"d": [[k, seq_as_list(x)] for k, x in j["d"]]}
    if isinstance(j, list):
        return [seq_as_list(x) for x in j]
    return j


def model_spec(s):
    if s["k"] == "const":
        return dict(s, v=seq_as_list(s["v"]))
    return s


def spec_outside_model(s):
    if s["k"] == "const":
        return outside_model(seq_as_list(s["v"]))
    if s["k"] == "opt":
        return "d" in s and outside_model(s["d"])
    return any("d" in a and outside_model(a["d"]) for a in s["args"])


def case_outside_model(case):
    return (outside_model(case["o1"]) or outside_model(case["o2"])
            or any(spec_outside_model(s) for _, s in flatten(case)))


def model_view(obs):
    """the implementation's observations as the model words them: a tuple-valued plain member shows as a sequence"""
    if isinstance(obs, dict):
        if "t" in obs and len(obs) == 1:
            return {"l": [model_view(x) for x in obs["t"]]}
        return {k: model_view(v) for k, v in obs.items()}
    if isinstance(obs, list):
        return [model_view(x) for x in obs]
    return obs


def canon_wire(j):
    """wire value with every dictionary's items sorted (dictionaries compare regardless of order)"""
    if isinstance(j, dict):
        if "d" in j:
            return {"d": sorted([k, canon_wire(x)] for k, x in j["d"])}
        return {k: canon_wire(v) for k, v in j.items()}
    if isinstance(j, list):
        return [canon_wire(x) for x in j]
    return j


def same(a, b):
    """the two values print alike: equal AND of the same types throughout (1 is not True is not 1.0, (1, 5) is not [1, 5],
    0.0 is not -0.0, Tag('Ab') is not Tag('ab')); dictionaries regardless of order"""
    return canon_wire(enc(a)) == canon_wire(enc(b))


EVAL_NS = {"__builtins__": {}, "Point": Point, "Span": Span, "Tag": Tag, "Box": Box, "inf": float("inf"),
           "set": set, "frozenset": frozenset}


def shown_options(r, name):
    """the dictionary that `repr(instance)` = `Name({...})` prints, read back as Python reads it; None if it is not of that form"""
    head = name + "("
    if not (isinstance(r, str) and r.startswith(head) and r.endswith(")")):
        return None
    try:
        v = eval(r[len(head):-1], dict(EVAL_NS))
    except Exception:
        return None
    return v if isinstance(v, dict) else None


def _norm_repr_out(x, name):
    """an outcome with its `repr` text replaced by the (canonically encoded) dictionary that text prints, when it reads back"""
    if isinstance(x, dict) and isinstance(x.get("repr"), str):
        v = shown_options(x["repr"], name)
        if v is not None:
            return dict(x, repr=["shown", canon_wire(enc(v))])
    elif isinstance(x, str):
        v = shown_options(x, name)
        if v is not None:
            return ["shown", canon_wire(enc(v))]
    return x


def model_line(case):
    return json.dumps({"name": case["name"], "members": [[n, model_spec(s)] for n, s in flatten(case)],
                       "o1": case["o1"], "o2": case["o2"]})


def run_impl(cases):
    inp = "\n".join(json.dumps(c) for c in cases) + "\n"
    r = sh([PY, "-B", "-c", RUNNER], inp=inp, timeout=1800,
           env={"VERIF_REPO_PATH": str(REPO), "PYTHONPATH": str(REPO), "PYTHONHASHSEED": "0"})
    lines = r.stdout.splitlines()
    if r.returncode != 0 or len(lines) != len(cases):
        raise Infra(f"implementation runner failed (rc={r.returncode}, {len(lines)}/{len(cases)} lines): "
                    f"{r.stderr[-1500:]}")
    return [json.loads(l) for l in lines]


def run_model(cases):
    """the model's answers; None for a case holding values the model cannot represent"""
    inside = [c for c in cases if not case_outside_model(c)]
    lines = run_driver("drv_dsclass", [model_line(c) for c in inside]) if inside else []
    if len(lines) != len(inside):
        raise Infra(f"driver produced {len(lines)} lines for {len(inside)} cases")
    it = iter(lines)
    return [None if case_outside_model(c) else json.loads(next(it)) for c in cases]


# ----------------------------------------------------------------------------- property oracle

def restrict(o, keys):
    """the options restricted to dotted keys — independent of set_dotted_key: top-down pruning"""
    heads = {}
    for k in keys:
        h, _, t = k.partition(".")
        heads.setdefault(h, []).append(t)
    out = {}
    for h, tails in heads.items():
        if not isinstance(o, dict) or h not in o:
            raise KeyError(h)
        out[h] = o[h] if "" in tails else restrict(o[h], tails)
    return out


def class_option_keys(case):
    ks = []
    for _, s in flatten(case):
        if s["k"] == "opt":
            ks.append(s["key"])
        elif s["k"] == "ds":
            ks += [a["key"] for a in s["args"]]
    return ks


def has_index_key(case):
    return any(seg.isdigit() for k in class_option_keys(case) for seg in k.split("."))


def is_err(x):
    return isinstance(x, dict) and "err" in x


def oracle(case, res):
    """problems on the implementation's own observations; only what the property text forbids"""
    if "runner_error" in res:
        return ["runner error: " + res["runner_error"]]
    obs, extra = res["obs"], res["extra"]
    problems = []
    members = flatten(case)
    idx = has_index_key(case)
    restricted = {}
    for j in ("1", "2"):
        o = dec(case["o" + j])
        mem = extra["members" + j]
        vis = [n for n, s in members if s["k"] != "const" and not n.startswith("__")]
        for op in ("keys", "explain"):
            outs = [mem[n][op] for n in vis]
            got = obs[op + j]
            if all(isinstance(x, list) for x in outs):
                want = sorted(set().union(*map(set, outs))) if outs else []
                if got != want:
                    problems.append(f"class {op}(o{j}) = {got} is not the union of the members' {op} = {want}")
            elif not is_err(got):
                problems.append(f"class {op}(o{j}) succeeds ({got}) although a member's {op} fails")
        vouts = [mem[n]["validate"] for n in vis]
        if all(v == "ok" for v in vouts) != (obs["validate" + j] == "ok"):
            problems.append(f"class validate(o{j}) = {obs['validate' + j]} but members' validate = {dict(zip(vis, vouts))}")
        inst = obs["i" + j]
        if not is_err(inst):
            attrs = dict((n, v) for n, v in inst["attrs"])
            for n, s in members:
                if s["k"] == "const":
                    if attrs.get(n) != s["v"]:
                        problems.append(f"plain member {n} of instance {j} is {attrs.get(n)}, constant is {s['v']}")
                elif n.startswith("__"):
                    continue
                else:
                    ev = mem[n]["ev"]
                    if is_err(ev) or attrs.get(n) != ev["ok"]:
                        problems.append(f"attribute {n} of instance {j} is {attrs.get(n)}, member evaluates to {ev}")
        else:
            evs_ok = all(not is_err(mem[n]["ev"]) for n in vis)
            keys_ok = all(isinstance(mem[n]["keys"], list) for n in vis)
            if evs_ok and keys_ok and not idx:
                problems.append(f"cls(o{j}) fails with {inst['err']} although every member evaluates")
        if extra["mut" + j]:
            problems.append(f"the options dictionary o{j} was mutated")
        if extra["frozen" + j] not in (None, True):
            problems.append(f"instance {j} changed (or stopped being equal to a fresh instance from the same options) "
                            f"after the caller wrote into the dictionary it was built from: {extra['frozen' + j]}")
        if extra.get("isolated" + j) not in (None, True):
            problems.append(f"a plain member of a later instance is not its declared constant after an earlier instance's value "
                            f"was edited in place (instances share the class's mutable constant): {extra['isolated' + j]}")
        if not is_err(inst) and not idx and isinstance(obs["keys" + j], list):
            try:
                R = restrict(o, obs["keys" + j])
            except KeyError as e:
                problems.append(f"reported key under {e} is not present in o{j}")
                continue
            restricted[j] = R
            shown = shown_options(inst["repr"], case["name"])
            if shown is None or not same(shown, R):
                problems.append(f"repr of instance {j} is {inst['repr']!r}, restricted options are {R!r}")
    if "1" in restricted and "2" in restricted and obs["eq"] is not None:
        want = restricted["1"] == restricted["2"]
        if obs["eq"] != want:
            problems.append(f"a == b is {obs['eq']} but restricted options {restricted['1']!r} vs {restricted['2']!r} "
                            f"are {'equal' if want else 'different'}")
        if extra["ne"] != (not obs["eq"]):
            problems.append(f"a != b is {extra['ne']} while a == b is {obs['eq']}")
    return problems


def classify(payload):
    """trigger predicate for candidate known findings of C19"""
    case = payload.get("case")
    if case and has_index_key(case):
        return "C19-INDEX-KEYS"
    return None


# ----------------------------------------------------------------------------- generators

def opt(key, d=None, has_d=False):
    s = {"k": "opt", "key": key}
    if has_d:
        s["d"] = enc(d)
    return s


def const(v):
    return {"k": "const", "v": enc(v)}


def ds(*args):
    return {"k": "ds", "args": [{kk: vv for kk, vv in a.items() if kk != "k"} for a in args]}


def case_(own, o1, o2, base=(), build="type", inherit="plain", name="C"):
    def norm(ms):
        return [[m[0], m[1], (m[2] if len(m) > 2 else True)] for m in ms]
    return {"name": name, "base": norm(base), "own": norm(own), "build": build, "inherit": inherit,
            "o1": enc(o1), "o2": enc(o2)}


def corpus():
    A12 = {"A": {"X": 2, "Y": 3}, "Z": 5}
    cs = []
    # flat key: equal / irrelevant difference / relevant difference
    flat = [("a", opt("A"))]
    cs += [case_(flat, {"A": 2, "Z": 5}, {"A": 2, "Z": 5}), case_(flat, {"A": 2, "Z": 5}, {"A": 2, "Z": 7}),
           case_(flat, {"A": 2}, {"A": 3})]
    # nested key (the repaired defect): only A.X differs / only the irrelevant A.Y differs
    ax = [("x", opt("A.X"))]
    cs += [case_(ax, {"A": {"X": 2}}, {"A": {"X": 3}}), case_(ax, A12, {"A": {"X": 2, "Y": 7}, "Z": 5}),
           case_(ax, A12, copy.deepcopy(A12))]
    # prefix overlap A + A.X: difference in A.Y is relevant through A; key order is not
    ov = [("w", opt("A")), ("x", opt("A.X"))]
    cs += [case_(ov, A12, {"A": {"X": 2, "Y": 7}, "Z": 5}), case_(ov, A12, {"Z": 9, "A": {"Y": 3, "X": 2}}),
           case_(ov, A12, {"A": {"X": 2}}), case_(ov, {"A": {"X": {"P": [2, {"k": 3}]}}}, {"A": {"X": {"P": [2, {"k": 3}]}}})]
    # prefix overlap where the reported key sets differ: {A, A.X} vs {A}
    pre = [("a", opt("A")), ("ax", opt("A.X", 7, True))]
    cs += [case_(pre, {"A": {"X": 2}}, {"A": {}}), case_(pre, {"A": {"X": 7}}, {"A": {}}), case_(pre, {"A": {"X": 7}}, {"A": {"X": 7}})]
    # deep key, section key next to it
    deep = [("a", opt("S.T.U")), ("zed", opt("S.T"))]
    cs += [case_(deep, {"S": {"T": {"U": 2, "V": 3}}}, {"S": {"T": {"V": 3, "U": 2}}}),
           case_([("a", opt("S.T.U"))], {"S": {"T": {"U": 2, "V": 3}}}, {"S": {"T": {"U": 2, "V": 5}, "W": 7}})]
    # defaults: present vs. defaulted give equal attributes but different restricted options
    dfl = [("b", opt("B.Y", 3, True)), ("a", opt("A", None, True))]
    cs += [case_(dfl, {"B": {"Y": 3}}, {}), case_(dfl, {}, {"Z": 2}), case_(dfl, {"A": None}, {"A": None, "B": {}})]
    # constants (annotated, not annotated), dataset member, names sorting unlike their keys
    mix = [("zed", opt("A")), ("a", opt("S.T.U", 7, True)), ("c", const(9)), ("p", const([2, {"k": "s"}]), False),
           ("dd", ds(opt("A.X"), opt("B.Y", 3, True)))]
    cs += [case_(mix, A12, {"A": {"X": 2, "Y": 3}, "S": {"T": {"U": 7}}}), case_(mix, A12, {"A": {"Y": 3, "X": 2}}, build="exec"),
           case_(mix, A12, {"A": {"X": 5, "Y": 3}})]
    # inherited members: plain base class, override, subclass of a dataset class
    base = [("a", opt("A.X")), ("k", const(5)), ("q", opt("Q", "dflt", True))]
    own = [("b", opt("B")), ("k", const(6), False)]
    for inh in ("plain", "dcsub", "dcboth"):
        for how in ("type", "exec"):
            cs += [case_(own, {"A": {"X": 2}, "B": 3}, {"A": {"X": 2, "Y": 9}, "B": 3}, base=base, build=how, inherit=inh),
                   case_(own, {"A": {"X": 2}, "B": 3}, {"A": {"X": 5}, "B": 3}, base=base, build=how, inherit=inh)]
    # one of the two lacks a required key; validate must see members late in dir order
    late = [("a", opt("A")), ("zed", opt("Q")), ("n", opt("B", 2, True))]
    cs += [case_(late, {"A": 2, "Q": 3}, {"A": 2}), case_(late, {"A": 2}, {"Q": 3}), case_(late, {"Q": 2, "A": 3}, {"A": 3, "Q": 2})]
    # a scalar where a section is expected
    cs += [case_(ax, {"A": 5}, {"A": {"X": 5}}), case_([("x", opt("A.X", 2, True))], {"A": "str"}, {"A": [2]}),
           case_([("d", ds(opt("A.X")))], {"A": 5}, {})]
    # `__`-members are left alone
    cs += [case_([("__hid", opt("Q")), ("a", opt("A"))], {"A": 2}, {"A": 2, "Q": 3})]
    # dotted-string order differs from segment order: 'A-B' < 'A.X'
    cs += [case_([("m", opt("A-B")), ("x", opt("A.X"))], {"A": {"X": 2}, "A-B": 3}, {"A-B": 3, "A": {"X": 2}})]
    # no evaluatable member at all / empty options
    cs += [case_([("c", const(2))], {}, {"Z": 3}), case_([], {}, {})]
    # index segments (outside the theorem's side condition: correspondence only)
    cs += [case_([("b", opt("L.0"))], {"L": [2, 3]}, {"L": [2, 5]}), case_([("a", opt("L")), ("b", opt("L.0"))], {"L": [2, 3]}, {"L": [2, 3]}),
           case_([("a", opt("L")), ("b", opt("L.0"))], {"L": "xy"}, {"L": {"0": 2}})]
    return cs


SMALL_OPTS = [{}, {"A": 2}, {"A": {}}, {"A": {"X": 2}}, {"A": {"X": 3}}, {"A": {"X": 2, "Y": 5}}, {"A": {"Y": 5, "X": 2}},
              {"A": {"X": 2}, "B": 7}, {"B": 7}]
SMALL_SPECS = [opt(k) for k in ("A", "A.X", "A.Y", "B")] + [opt(k, 3, True) for k in ("A", "A.X", "A.Y", "B")]


def exhaustive(limit_pairs=None):
    names = ["m", "a"]     # the second member sorts before the first
    classes = [[s] for s in SMALL_SPECS] + [list(p) for p in itertools.combinations(SMALL_SPECS, 2)]
    pairs = list(itertools.product(range(len(SMALL_OPTS)), repeat=2))
    for cl in classes:
        own = [(names[i], s) for i, s in enumerate(cl)]
        for i, j in (pairs if limit_pairs is None else limit_pairs):
            yield case_(own, SMALL_OPTS[i], SMALL_OPTS[j])


KEY_POOL = ["A", "B", "Q", "A.X", "A.Y", "A.X.P", "S.T.U", "S.T", "S", "B.Y", "A-B", "a.x"]
NAME_POOL = ["a", "ax", "b", "zed", "Mid", "_p", "n1", "m", "n", "q", "Zz", "k9", "opt_a", "y"]
SCALARS = [2, 3, 5, 7, -4, 10, True, False, None, "s", "tu", "x y", "Hello"]


def gen_val(rng, depth=0):
    r = rng.random()
    if depth >= 2 or r < 0.6:
        return rng.choice(SCALARS)
    if r < 0.8:
        return [gen_val(rng, depth + 1) for _ in range(rng.randint(0, 3))]
    return {k: gen_val(rng, depth + 1) for k in rng.sample(["X", "Y", "P", "k"], rng.randint(0, 3))}


# ---- every kind of value a Python caller can put into an options dictionary and that == / repr tell apart
BIG = 2 ** 64 + 1
RICH_LEAVES = [1, 0, True, False, 1.0, 0.0, -0.0, 2.5, float("inf"), -3, 7, BIG, -(10 ** 30), None, "s", "", "Ab", "ab",
               b"ab", b"", ("Tag", "Ab"), ("Tag", "ab"), ("Tag", "s")]
HASHABLE = [1, True, 2, 1.0, "s", "Ab", b"ab", (1, 5), (), ("Tag", "Ab"), frozenset([2, 3]), None, BIG]


def leaf_(x):
    return Tag(x[1]) if isinstance(x, tuple) and len(x) == 2 and x[0] == "Tag" else x


def rich_val(rng, depth=0):
    """a value of any kind: scalars of every type, tuples / namedtuples / lists / dicts nested in one another, sets,
    frozensets, bytes, user objects; a third of the time one of the JSON values the plain generator makes"""
    r = rng.random()
    if r < 0.3:
        return gen_val(rng, depth)
    if depth >= 2 or r < 0.5:
        return leaf_(rng.choice(RICH_LEAVES))
    if r < 0.64:
        return tuple(rich_val(rng, depth + 1) for _ in range(rng.randint(0, 3)))
    if r < 0.72:
        return [rich_val(rng, depth + 1) for _ in range(rng.randint(0, 3))]
    if r < 0.80:
        return {k: rich_val(rng, depth + 1) for k in rng.sample(["X", "Y", "P", "k"], rng.randint(1, 3))}
    if r < 0.87:
        return rng.choice([Point, Span])(rich_val(rng, depth + 1), rich_val(rng, depth + 1))
    if r < 0.94:
        items = [leaf_(x) for x in rng.sample(HASHABLE, rng.randint(0, 3))]
        return rng.choice([set, frozenset])(items)
    return Box(rng.choice([list, tuple])(rich_val(rng, depth + 1) for _ in range(rng.randint(0, 2))))


def is_namedtuple(v):
    return isinstance(v, tuple) and type(v) is not tuple


def lookalikes(v):
    """values that resemble v - equal items in another container type, the same number as another type, the same text
    as another type, ... ; Python's == and repr decide which of them ARE equal / print alike (never KeyError, never v itself)"""
    if v is KeyError:
        return []
    out = []
    if isinstance(v, bool):
        out += [int(v), float(v)]
    elif isinstance(v, int):
        if v in (0, 1):
            out += [bool(v)]
        out += [float(v)] if abs(v) < 2 ** 53 else [v + 1, -v]
    elif isinstance(v, float):
        if v == v and abs(v) < 2 ** 53:
            if v == int(v):
                out += [int(v)]
            if v == 0:
                out += [-v]
            if v == 1:
                out += [True]
        else:
            out += [-v]
    elif isinstance(v, str):
        out += [v.encode(), Tag(v), v.swapcase()] if v and v.swapcase() != v else [v.encode(), Tag(v)]
    elif isinstance(v, bytes):
        out += [v.decode()]
    elif v is None:
        out += ["None", False]
    elif is_namedtuple(v):
        out += [tuple(v), list(v), (Span if isinstance(v, Point) else Point)(*v)]
    elif isinstance(v, tuple):
        out += [list(v)] + ([Point(*v)] if len(v) == 2 else [])
    elif isinstance(v, list):
        out += [tuple(v)] + ([Span(*v)] if len(v) == 2 else [])
    elif isinstance(v, frozenset):
        out += [set(v)]
    elif isinstance(v, set):
        out += [frozenset(v), [dec(j) for j in enc(v)["s"]]]
    elif isinstance(v, Tag):
        out += [Tag(v.label.swapcase()), v.label]
    elif isinstance(v, Box):
        out += [Box(w) for w in lookalikes(v.items)[:2]] + [copy.deepcopy(v.items)]
    # one level down: the same container holding a look-alike of one of its items
    if isinstance(v, (list, tuple)) and not is_namedtuple(v):
        for i, x in enumerate(v):
            la = lookalikes(x)
            if la:
                out.append(type(v)(list(v[:i]) + [la[0]] + list(v[i + 1:])))
                break
    elif is_namedtuple(v):
        for i, x in enumerate(v):
            la = lookalikes(x)
            if la:
                out.append(type(v)(*(list(v[:i]) + [la[0]] + list(v[i + 1:]))))
                break
    elif isinstance(v, dict):
        for k, x in v.items():
            for w in lookalikes(x)[:2]:
                d = copy.deepcopy(v)
                d[k] = w
                out.append(d)
        if v:
            out.append(list(v.items()))
    return [copy.deepcopy(w) for w in out]


RICH_BASE = [
    (1, 5), [1, 5], (), [], ((1, 2), 5), ([1, 2], {"k": (3,)}), [(1, 2), [3, (4,)]], (1,), Point(1, 5), Span(1, 5),
    Point((1, 2), [3]), {"k": (1, 5), "n": Point(2, 3)}, {1, 2}, frozenset([1, 2]), set(), frozenset(), {"s", (1, 5)},
    b"ab", b"", "ab", 1, True, 1.0, 0, False, 0.0, -0.0, 2.5, float("inf"), BIG, -(10 ** 30), 2 ** 53, None,
    [None], {"k": None}, (None,), Tag("Ab"), [Tag("ab")], (Tag("s"), 1), Box([1, 5]), Box((1, 5)), Box([(1, 2), {"k": [3]}]),
    [1, (True, 1.0), {"k": {2, 3}}, b"x"], {"X": {"Y": (1, [2, (3,)])}},
]

PLACEMENTS = [
    # (label, own members, options around the value, base members)
    ("plain-key", lambda: [("w", opt("W"))], lambda v: {"W": v, "Z": 5}),
    ("dotted-key", lambda: [("g", opt("G.O"))], lambda v: {"G": {"O": v, "STEP": 9}}),
    ("section-read-whole", lambda: [("g", opt("G"))], lambda v: {"G": {"O": v, "N": [2, v]}, "Z": (1, 5)}),
    ("in-a-list+dataset", lambda: [("zed", opt("W")), ("d", ds(opt("G.O"), opt("Q", 3, True)))],
     lambda v: {"W": [2, v, "s"], "G": {"O": {"k": v}}}),
    ("prefix-overlap", lambda: [("a", opt("G")), ("b", opt("G.O")), ("c", const((2, [3])))], lambda v: {"G": {"O": v, "P": 2}}),
    ("deep-dotted+default", lambda: [("u", opt("S.T.U")), ("q", opt("Q", (1, 5), True))], lambda v: {"S": {"T": {"U": v, "V": [v]}}}),
]


def value_cases(seed):
    """the directed family over value kinds: every base value against itself (an equal copy) and against each of its
    look-alikes (under a plain key or a dotted key, alternating, and under one further placement, rotating with the seed);
    also absent-versus-None"""
    cs, n = [], 0
    for bi, v in enumerate(RICH_BASE):
        for wi, w in enumerate([copy.deepcopy(v)] + lookalikes(v)):
            places = [(bi + wi + seed) % 2, 2 + (bi + wi + seed) % 4] if wi else [(bi + seed) % 6]
            for pi in sorted(set(places)):
                label, own, around = PLACEMENTS[pi]
                o1, o2 = around(copy.deepcopy(v)), around(copy.deepcopy(w))
                if (n + seed) % 2:
                    o1, o2 = o2, o1
                if (n + seed) % 5 == 0:
                    o2["ZZ"] = copy.deepcopy(v)           # an irrelevant key holding the value
                inh, base, members = "plain", (), own()
                if n % 4 == 3 and len(members) > 1:
                    base, members, inh = members[:1], members[1:], ["dcsub", "dcboth", "plain"][(n // 4) % 3]
                c = case_(members, o1, o2, base=base, build="exec" if n % 3 == 2 else "type", inherit=inh, name="V%d" % (n % 5))
                c["kind"] = "value:" + ("copy" if wi == 0 else "look-alike")
                c["placement"] = label
                c["pair"] = [type(v).__name__, type(w).__name__]
                cs.append(c)
                n += 1
    # None versus missing, under a key with a default and without
    for own in ([("a", opt("A", None, True))], [("a", opt("A.X", None, True))], [("a", opt("A"))]):
        key = own[0][1]["key"]
        o1, o2 = {}, {}
        set_nested(o1, key, None)
        if "." in key:
            o2 = {"A": {}}
        cs.append(dict(case_(own, o1, o2, name="V0"), kind="value:none-vs-missing", placement="plain-key" if "." not in key else "dotted-key",
                       pair=["NoneType", "missing"]))
    return cs


def set_nested(o, key, v):
    segs = key.split(".")
    for s in segs[:-1]:
        if not isinstance(o.get(s), dict):
            o[s] = {}
        o = o[s]
    o[segs[-1]] = v


def gen_options(rng, keys, val=None):
    val = val or gen_val
    o = {}
    ks = list(keys)
    rng.shuffle(ks)
    for k in ks:
        if rng.random() < 0.93:
            set_nested(o, k, val(rng))
    for k in rng.sample(["Z", "W", "A.W", "S.T.V", "S.W", "B.W"], rng.randint(0, 3)):
        if rng.random() < 0.8:
            try:
                set_nested(o, k, val(rng))
            except Exception:
                pass
    if rng.random() < 0.06 and ks:     # a scalar where a section is expected
        k = rng.choice(ks)
        if "." in k:
            o[k.split(".")[0]] = rng.choice([5, "str", [2], None])
    return o


def paths_of(o, prefix=""):
    out = []
    for k, v in o.items():
        p = prefix + k
        out.append(p)
        if isinstance(v, dict):
            out += paths_of(v, p + ".")
    return out


def del_nested(o, key):
    segs = key.split(".")
    for s in segs[:-1]:
        o = o[s]
    del o[segs[-1]]


def reorder(rng, o):
    if isinstance(o, dict):
        items = [(k, reorder(rng, v)) for k, v in o.items()]
        rng.shuffle(items)
        return dict(items)
    return o


def perturb(rng, o1, keys, val=None):
    """o2 from o1; returns (o2, kind)"""
    o2 = copy.deepcopy(o1)
    kinds = ["same", "irrelevant", "relevant", "order", "missing", "scalar", "independent", "relevant", "irrelevant"]
    if val is not None:
        kinds += ["twin", "twin", "twin", "twin-irrelevant"]
    val = val or gen_val
    kind = rng.choice(kinds)
    present = [k for k in keys if k in paths_of(o1)]
    if kind == "twin" and present:          # a look-alike under a reported key: (1, 5) for [1, 5], True for 1, ...
        ks = [k for k in present if lookalikes(get_nested(o1, k))]
        if ks:
            k = rng.choice(ks)
            set_nested(o2, k, rng.choice(lookalikes(get_nested(o1, k))))
    elif kind == "twin-irrelevant":         # a look-alike somewhere the class does not read
        ps = [q for q in paths_of(o1) if not any(q == k or q.startswith(k + ".") or k.startswith(q + ".") for k in keys)
              and lookalikes(get_nested(o1, q))]
        if ps:
            q = rng.choice(ps)
            set_nested(o2, q, rng.choice(lookalikes(get_nested(o1, q))))
    elif kind == "irrelevant":
        set_nested(o2, rng.choice(["Z", "W", "A.W", "S.T.V"]) if rng.random() < 0.9 else "Z", val(rng))
    elif kind == "relevant" and present:
        k = rng.choice(present)
        set_nested(o2, k, val(rng))
    elif kind == "order":
        o2 = reorder(rng, o2)
    elif kind == "missing" and present:
        del_nested(o2, rng.choice(present))
    elif kind == "scalar" and present:
        k = rng.choice(present)
        o2[k.split(".")[0]] = rng.choice([5, "str", [2]])
    elif kind == "independent":
        o2 = gen_options(rng, keys, val)
    return o2, kind


def gen_member(rng, val=None):
    val = val or gen_val
    r = rng.random()
    if r < 0.55:
        k = rng.choice(KEY_POOL)
        if rng.random() < 0.35:
            return opt(k, val(rng, 1), True)
        return opt(k)
    if r < 0.75:
        c = const(val(rng))
        if isinstance(c["v"], dict) and "l" in c["v"] and rng.random() < 0.4:
            c["v"] = {"t": c["v"]["l"]}       # the constant is a tuple (immutable itself, its elements need not be)
        return c
    args = []
    for _ in range(rng.randint(0, 3)):
        k = rng.choice(KEY_POOL)
        args.append(opt(k, val(rng, 1), True) if rng.random() < 0.35 else opt(k))
    return ds(*args)


def gen_case(rng, n, val=None):
    names = rng.sample(NAME_POOL, rng.randint(1, 5))
    build = rng.choice(["type", "type", "exec"])
    members = [(nm, gen_member(rng, val), rng.random() < 0.7) for nm in names]
    if build == "type" and rng.random() < 0.1:
        members.append(("__hid", opt(rng.choice(KEY_POOL)), False))
    nb = rng.choice([0, 0, 1, 2]) if len(members) > 1 else 0
    base, own = members[:nb], members[nb:]
    if base and rng.random() < 0.4:        # an override of an inherited member
        own.append((base[0][0], gen_member(rng, val), rng.random() < 0.5))
    c = case_(own, {}, {}, base=base, build=build, inherit=rng.choice(["plain", "dcsub", "dcboth"]), name="C%d" % (n % 7))
    keys = class_option_keys(c)
    o1 = gen_options(rng, keys, val)
    o2, kind = perturb(rng, o1, keys, val)
    c["o1"], c["o2"] = enc(o1), enc(o2)
    c["kind"] = kind
    return c


# ----------------------------------------------------------------------------- shrinking

def shrink_candidates(case):
    out = []
    for part in ("own", "base"):
        for i in range(len(case[part])):
            c = copy.deepcopy(case)
            del c[part][i]
            out.append(c)
    if case.get("build") != "type":
        c = copy.deepcopy(case); c["build"] = "type"; out.append(c)
    if case.get("inherit") != "plain":
        c = copy.deepcopy(case); c["inherit"] = "plain"; out.append(c)
    if case["base"]:
        c = copy.deepcopy(case)
        names = {m[0] for m in c["own"]}
        c["own"] = [m for m in c["base"] if m[0] not in names] + c["own"]
        c["base"] = []
        out.append(c)
    for part in ("own", "base"):
        for i, m in enumerate(case[part]):
            if m[1]["k"] == "opt" and "d" in m[1]:
                c = copy.deepcopy(case); del c[part][i][1]["d"]; out.append(c)
            if m[1]["k"] == "ds":
                for a in range(len(m[1]["args"])):
                    c = copy.deepcopy(case); del c[part][i][1]["args"][a]; out.append(c)
    for side in ("o1", "o2"):
        o = dec(case[side])
        for p in paths_of(o):
            o2 = copy.deepcopy(o)
            del_nested(o2, p)
            c = copy.deepcopy(case); c[side] = enc(o2); out.append(c)
    if case["o1"] != case["o2"]:
        c = copy.deepcopy(case); c["o2"] = c["o1"]; out.append(c)
        c = copy.deepcopy(case); c["o1"] = c["o2"]; out.append(c)
    return out


def shrink(case, failing, rounds=8):
    """greedy: `failing(list_of_cases) -> list[bool]`"""
    for _ in range(rounds):
        cands = shrink_candidates(case)
        if not cands:
            break
        flags = failing(cands)
        nxt = next((c for c, f in zip(cands, flags) if f), None)
        if nxt is None:
            break
        case = nxt
    return case


def corr_failing(cases):
    impl, model = run_impl(cases), run_model(cases)
    return ["runner_error" not in i and m is not None and "driver_error" not in m and model_view(i["obs"]) != m
            for i, m in zip(impl, model)]


def oracle_failing(cases):
    impl = run_impl(cases)
    return [bool(oracle(c, i)) for c, i in zip(cases, impl)]


# ----------------------------------------------------------------------------- HISTORIES over families of related classes
#
# The property (and the model: `DatasetClass` has no state) make the outcome of keys / validate / explain /
# instantiation / repr / == a function of (class, dictionary CONTENTS) only.  A family is a base dataset class and
# classes derived from it (adding members, redefining members, both; two levels; siblings); a history is a sequence of
# operations on the DIFFERENT classes of one family, interleaved (base first, derived first, alternating, siblings,
# whole chain up and down), handed either fresh dictionary objects each time or ONE dictionary object reused by every
# call - unchanged, or edited in place between the calls.  Three oracles per step:
#   history   : the outcome equals the same operation performed FIRST THING on a freshly built copy of the family with
#               a fresh dictionary of equal contents (computed by the runner: `reference`);
#   property  : keys / explain / validate of a class are the union / conjunction over ITS OWN effective members asked
#               alone; attributes are the member-wise evaluations; repr shows, and == compares, the contents restricted
#               to those keys; no call changes the dictionary;
#   model     : the Lean model's answer for (flattened class, contents).

HOPS = ["keys", "validate", "explain", "inst"]
VARIANTS = [(True, "type"), (False, "type"), (True, "exec"), (False, "exec")]   # (derived classes decorated again?, build)
SHAPES = ["add", "redef", "both", "two", "sib", "sib2"]
IRRELEVANT = ["Z", "W", "ZZ.W"]        # heads that no pool key starts with
EDIT_VALUES = [2, 3, 5, 7, -4, "s", "tu", "Hello", None, True, [2, "s"]]


def family_(name, shape, classes, deco=True, build="type"):
    """classes: [(name, parent index or None, own members)]; the root is always decorated"""
    cs = []
    for cname, parent, own in classes:
        cs.append({"name": cname, "parent": parent, "deco": True if parent is None else deco,
                   "own": [[m[0], m[1], (m[2] if len(m) > 2 else True)] for m in own]})
    return {"name": name, "shape": shape, "build": build, "classes": cs}


def fixed_families(variant_of):
    fams = [
        ("add", [("Base", None, [("value", ds(opt("INPUT.X"), opt("INPUT.SCALE", 3, True))), ("unit", const("m"))]),
                 ("Derived", 0, [("label", opt("REPORT.LABEL"))])]),
        ("redef", [("Base", None, [("a", opt("A.X")), ("k", const(5)), ("q", opt("Q", "dflt", True))]),
                   ("Derived", 0, [("a", opt("B")), ("k", opt("A.Y", 7, True))])]),
        ("both", [("Base", None, [("a", opt("A.X")), ("q", opt("Q", "dflt", True))]),
                  ("Derived", 0, [("b", opt("B.Y")), ("q", const("fixed"), False), ("a", ds(opt("A.X"), opt("S.T.U")))])]),
        ("two", [("Base", None, [("a", opt("A.X"))]),
                 ("Mid", 0, [("m", opt("S.T.U"))]),
                 ("Leaf", 1, [("zed", opt("S.T")), ("a", ds(opt("A.Y")))])]),
        ("sib", [("Base", None, [("a", opt("A.X")), ("n", opt("B", 2, True))]),
                 ("Left", 0, [("b", opt("Q"))]),
                 ("Right", 0, [("c", opt("S.T.U")), ("a", opt("A"))])]),
        ("sib2", [("Base", None, [("a", opt("A.X"))]),
                  ("Left", 0, [("b", opt("B.Y"))]),
                  ("Right", 0, [("c", opt("Q"))]),
                  ("Leaf", 1, [("e", opt("S.T")), ("b", opt("B"))])]),
    ]
    out = []
    for i, (shape, classes) in enumerate(fams):
        for v in variant_of(i):
            deco, build = VARIANTS[v]
            out.append(family_("fixed-%s-%d" % (shape, v), shape, classes, deco, build))
    return out


def spec_keys(s):
    if s["k"] == "opt":
        return [s["key"]]
    if s["k"] == "ds":
        return [a["key"] for a in s["args"]]
    return []


def fam_flatten(fc, c):
    """effective members of class c (nearest definition along the parent chain): attr -> (spec, defining class)"""
    chain = []
    while c is not None:
        chain.append(c)
        c = fc["classes"][c]["parent"]
    d = {}
    for i in reversed(chain):
        for n, s, _ in fc["classes"][i]["own"]:
            d[n] = (s, i)
    return d


def fam_keys(fc, c):
    return sorted({k for s, _ in fam_flatten(fc, c).values() for k in spec_keys(s)})


def ancestors(fc, c):
    out = []
    c = fc["classes"][c]["parent"]
    while c is not None:
        out.append(c)
        c = fc["classes"][c]["parent"]
    return out


def gen_family(rng, shape, n):
    taken_names, taken_keys = set(), set()

    def added(k):
        ms = []
        for j in range(k):
            nm = rng.choice([x for x in NAME_POOL if x not in taken_names])
            taken_names.add(nm)
            m = gen_member(rng)
            if j == 0:      # at least one added member reads a key of its own
                fresh = [x for x in KEY_POOL if x not in taken_keys]
                key = rng.choice(fresh or KEY_POOL)
                m = rng.choice([opt(key), opt(key), opt(key, gen_val(rng, 1), True), ds(opt(key), opt(rng.choice(KEY_POOL), 3, True))])
            taken_keys.update(spec_keys(m))
            ms.append((nm, m, rng.random() < 0.7))
        return ms

    def redefined(eff_names, k):
        ms = []
        for nm in rng.sample(sorted(eff_names), min(k, len(eff_names))):
            m = gen_member(rng)
            taken_keys.update(spec_keys(m))
            ms.append((nm, m, rng.random() < 0.6))
        return ms

    def derive(kind, eff_names):
        own = []
        if kind in ("add", "both"):
            own += added(rng.randint(1, 2))
        if kind in ("redef", "both"):
            own += redefined(eff_names, rng.randint(1, 2))
        return own

    base = added(rng.randint(2, 3))
    names0 = {m[0] for m in base}
    plan = {"add": [(0, "add")], "redef": [(0, "redef")], "both": [(0, "both")],
            "two": [(0, rng.choice(["add", "both"])), (1, rng.choice(["add", "redef", "both"]))],
            "sib": [(0, "add"), (0, "both")],
            "sib2": [(0, "add"), (0, rng.choice(["add", "redef"])), (1, "both")]}[shape]
    classes = [("Base", None, base)]
    eff = [set(names0)]
    for j, (parent, kind) in enumerate(plan):
        own = derive(kind, eff[parent])
        classes.append(("D%d" % (j + 1), parent, own))
        eff.append(eff[parent] | {m[0] for m in own})
    deco, build = VARIANTS[rng.randrange(4)]
    return family_("random-%s-%d" % (shape, n), shape, classes, deco, build)


def full_options(rng, keys, val=None):
    """every key present (prefixes first, so that a deeper key turns its section into a dictionary)"""
    val = val or gen_val
    o = {}
    for k in sorted(keys, key=lambda k: (k.count("."), k)):
        v = val(rng)
        set_nested(o, k, v)
    for k in rng.sample(IRRELEVANT, rng.randint(1, 2)):
        set_nested(o, k, val(rng))
    return o


def get_nested(o, key):
    for s in key.split("."):
        if not isinstance(o, dict) or s not in o:
            return KeyError
        o = o[s]
    return o


def leafy(cands, allkeys):
    """prefer keys that are not a proper prefix of another key of the family (an edit there destroys nothing else)"""
    good = [k for k in cands if not any(a.startswith(k + ".") for a in allkeys)]
    return good or list(cands)


def pick_edit(rng, fc, seq, kind, o, allkeys, vals=()):
    """(key, value) for an edit of kind added / base / irrelevant / same, relative to the last class of `seq`;
    `vals`: the family's few edit values (tried first, so that the histories of one family meet the same contents)"""
    y, x0 = seq[-1], seq[0]
    ky, kx = fam_keys(fc, y), fam_keys(fc, x0)
    if kind == "twin":           # a look-alike of the value now under one of the last class's keys
        ks = [k for k in ky if lookalikes(get_nested(o, k))]
        if ks:
            key = rng.choice(leafy(ks, allkeys))
            return key, rng.choice(lookalikes(get_nested(o, key)))
        kind = "added"
    if kind == "irrelevant":
        key = rng.choice(IRRELEVANT)
    elif kind == "added":
        key = rng.choice(leafy([k for k in ky if k not in kx] or ky or allkeys or ["Z"], allkeys))
    else:
        key = rng.choice(leafy([k for k in ky if k in kx] or kx or ky or allkeys or ["Z"], allkeys))
    cur = get_nested(o, key)
    if kind == "same" and cur is not KeyError:
        return key, copy.deepcopy(cur)
    differs = lambda v: cur is KeyError or enc(v) != enc(cur)
    return key, rng.choice([v for v in vals if differs(v)] or [v for v in EDIT_VALUES if differs(v)])


def order_label(fc, seq):
    x, y = seq[0], seq[-1]
    if len(set(seq)) > 2:
        return "chain-base-first" if seq[0] == 0 else "chain-derived-first"
    rel = "base-first" if x in ancestors(fc, y) else "derived-first" if y in ancestors(fc, x) else "siblings"
    return ("alternating-" if len(seq) > 2 else "") + rel


def make_history(rng, fc, seq, dicts, opa, rot, pool, vals, rich=False):
    """seq: the classes visited; one operation on each of seq[:-1] (starting with HOPS[opa]), then all four operations on
    seq[-1] (starting with HOPS[rot]), then a second instance of seq[-1] from different contents, ==, and both reprs.
    dicts: fresh | shared (two dictionary objects: one for everything, one for the second instance) |
           shared-edited | fresh-edited (ONE dictionary, edited in place between the calls)"""
    y = seq[-1]
    allkeys = sorted({k for c in range(len(fc["classes"])) for k in fam_keys(fc, c)})
    o0 = copy.deepcopy(rng.choice(pool))
    ops = []
    cur = copy.deepcopy(o0)        # contents of slot 0 as the history goes

    def edit(kind):
        key, v = pick_edit(rng, fc, seq, kind, cur, allkeys, vals)
        set_nested(cur, key, copy.deepcopy(v))
        return {"op": "set", "s": 0, "key": key, "v": enc(v)}

    edited = dicts.endswith("edited")
    plan = rng.randrange(4) if edited else None
    at = rng.randrange(1, len(seq)) if edited else None     # the first edit comes after this many operations
    for i, x in enumerate(seq[:-1]):
        if edited and i == at:
            ops += first_edit(rng, plan, edit, cur, fc, seq, allkeys, vals)
        op = {"op": HOPS[(opa + i) % 4], "c": x, "s": 0}
        if op["op"] == "inst":
            op["r"] = "p%d" % i
        ops.append(op)
    if edited and at == len(seq) - 1:
        ops += first_edit(rng, plan, edit, cur, fc, seq, allkeys, vals)
    for j in range(4):
        op = {"op": HOPS[(rot + j) % 4], "c": y, "s": 0}
        if op["op"] == "inst":
            op["r"] = "ra"
        ops.append(op)
    kind2 = rng.choice(["added", "added", "base", "irrelevant", "same"] + (["twin"] * 4 if rich else []))
    slots = [enc(o0)]
    if edited:
        ops.append(edit(kind2))
        ops.append({"op": "inst", "c": y, "s": 0, "r": "rb"})
    else:
        key, v = pick_edit(rng, fc, seq, kind2, o0, allkeys, vals)
        o1 = copy.deepcopy(o0)
        set_nested(o1, key, v)
        if kind2 == "same" and rng.random() < 0.5:
            o1 = reorder(rng, o1)
        slots.append(enc(o1))
        ops.append({"op": "inst", "c": y, "s": 1, "r": "rb"})
    ops += [{"op": "eq", "a": "ra", "b": "rb"}, {"op": "repr", "r": "ra"}, {"op": "repr", "r": "rb"}]
    h = dict(fc)
    h.update({"hist": True, "mode": "shared" if dicts.startswith("shared") else "fresh", "dicts": dicts, "slots": slots,
              "ops": ops, "seq": list(seq), "order": order_label(fc, seq), "second": kind2,
              "first_ops": [HOPS[opa], HOPS[rot]], "values": "rich" if rich else "json"})
    if edited:
        h["edit_plan"] = ["set", "set-and-revert", "delete-and-put-back", "none-before-last-class"][plan]
    return h


def first_edit(rng, plan, edit, cur, fc, seq, allkeys, vals):
    """the in-place edits made between the operations on the earlier classes and those on the last one"""
    if plan == 0:
        return [edit(rng.choice(["added", "base", "irrelevant"]))]
    if plan == 1:        # changed and changed back: equal contents again, the same object
        before = copy.deepcopy(cur)
        e = edit(rng.choice(["added", "base"]))
        old = get_nested(before, e["key"])
        if old is KeyError:
            del_nested(cur, e["key"])
            return [e, {"op": "del", "s": 0, "key": e["key"]}]
        set_nested(cur, e["key"], copy.deepcopy(old))
        return [e, {"op": "set", "s": 0, "key": e["key"], "v": enc(old)}]
    if plan == 2:        # deleted and put back: equal contents, another insertion order
        key, _ = pick_edit(rng, fc, seq, rng.choice(["added", "base"]), cur, allkeys, vals)
        old = get_nested(cur, key)
        if old is KeyError:
            return []
        del_nested(cur, key)
        set_nested(cur, key, copy.deepcopy(old))
        return [{"op": "del", "s": 0, "key": key}, {"op": "set", "s": 0, "key": key, "v": enc(old)}]
    return []


def family_sequences(fc, thorough, flip):
    n = len(fc["classes"])
    seqs = [[x, y] for x, y in itertools.permutations(range(n), 2)]
    for x, y in itertools.combinations(range(n), 2):
        if thorough:
            seqs += [[x, y, x, y], [y, x, y, x]]
        else:
            seqs.append([x, y, x, y] if (x + y + flip) % 2 == 0 else [y, x, y, x])
    if n >= 3:
        seqs += [list(range(n)), list(range(n))[::-1]]
    return seqs


def make_histories(ctx):
    """the directed family: deterministic given the seed; every tier runs it"""
    rng = random.Random(ctx.seed * 1000003 + 19)
    thorough = ctx.tier == "thorough"
    if thorough:
        fams = fixed_families(lambda i: range(4))
        fams += [gen_family(rng, sh, n) for n in range(5) for sh in SHAPES]
        modes = ["fresh", "shared", "shared-edited", "fresh-edited"]
    else:
        fams = fixed_families(lambda i: [(i + ctx.seed) % 4])
        fams += [gen_family(rng, sh, 0) for sh in SHAPES]
        modes = ["fresh", "shared", "shared-edited"]
    deck = list(itertools.product(range(4), range(4)))     # (first operation on the earlier class, on the last class)
    rng.shuffle(deck)
    hists, t = [], 0
    for fi, fc in enumerate(fams):
        # a family's histories start from a few dictionaries and edit with a few values: they meet the same contents again
        # and again, in different histories (and share the fresh-family references, computed once per contents)
        allkeys = sorted({k for c in range(len(fc["classes"])) for k in fam_keys(fc, c)})
        pool = [full_options(rng, allkeys), full_options(rng, allkeys), gen_options(rng, allkeys)]
        pool = pool[:2] + pool[:2] + pool
        vals = rng.sample(EDIT_VALUES, 3)
        for seq in family_sequences(fc, thorough, fi + ctx.seed):
            for dicts in modes:
                combos = deck if (thorough and fc["name"].startswith("fixed") and len(seq) == 2) else [deck[t % 16]]
                for opa, rot in combos:
                    hists.append(make_history(rng, fc, seq, dicts, opa, rot, pool, vals))
                t += 1
    # the same families over dictionaries of rich values (tuples, namedtuples, sets, bytes, floats, big ints, user objects,
    # 0 / 1 / True), edited with rich values and with look-alikes of what is there; a stream of its own, after the one above
    vrng = random.Random(ctx.seed * 1000003 + 191919)
    for fi, fc in enumerate(fams):
        allkeys = sorted({k for c in range(len(fc["classes"])) for k in fam_keys(fc, c)})
        pool = [full_options(vrng, allkeys, rich_val), full_options(vrng, allkeys, rich_val), gen_options(vrng, allkeys, rich_val)]
        pool = pool[:2] + pool[:2] + pool
        vals = [rich_val(vrng) for _ in range(3)]
        seqs = family_sequences(fc, thorough, fi + ctx.seed)
        for qi, seq in enumerate(seqs):
            for mi, dicts in enumerate(modes):
                if not thorough and (qi + mi + fi + ctx.seed) % 4:
                    continue
                opa, rot = deck[t % 16]
                hists.append(make_history(vrng, fc, seq, dicts, opa, rot, pool, vals, rich=True))
                t += 1
    return fams, hists


def hist_model_members(fc, c):
    return [[n, model_spec(s)] for n, (s, _) in fam_flatten(fc, c).items()]


def hist_outside_model(fc, res, c, a, b):
    if "_outside" not in res:        # per dictionary contents / per class, computed once per result
        res["_outside"] = ([outside_model(sn) for sn in res["snaps"]],
                           [any(spec_outside_model(s) for s, _ in fam_flatten(fc, ci).values()) for ci in range(len(fc["classes"]))])
    so, co = res["_outside"]
    return so[a] or so[b] or co[c]


def hist_model_requests(fc, res):
    """(class, contents a, contents b) the model is asked about, per step"""
    reqs = []
    for st in res["steps"]:
        if st["k"] in ("set", "del") or st.get("si") is None:
            reqs.append(None)
        elif st["k"] == "eq":
            reqs.append((st["c"], st["si"], st["sib"]) if st["c"] == st.get("cb") and st.get("sib") is not None else None)
        else:
            reqs.append((st["c"], st["si"], st["si"]))
        if reqs[-1] is not None and hist_outside_model(fc, res, *reqs[-1]):
            reqs[-1] = None          # values the model cannot represent: the property oracle alone judges the step
    return reqs


def hist_model_line(fc, res, req):
    c, a, b = req
    return json.dumps({"name": fc["classes"][c]["name"], "members": hist_model_members(fc, c),
                       "o1": res["snaps"][a], "o2": res["snaps"][b]}, sort_keys=True)


def hist_check(fc, res, model_of=None, notes=None):
    """-> (problems, model_disagreements); a problem is (step, oracle, text).  `model_of(line) -> model output or None`;
    `notes` collects the steps where a dataset member's attribute was left unjudged (cache look-alikes, see below)"""
    if "runner_error" in res:
        return [(None, "runner", "runner error: " + res["runner_error"])], []
    problems, disagreements = [], []
    ops = [o for o in fc["ops"]]
    reqs = hist_model_requests(fc, res)
    cname = lambda c: fc["classes"][c]["name"]

    def member_outs(c, si, what):
        eff = fam_flatten(fc, c)
        vis = [n for n, (s, _) in eff.items() if s["k"] != "const" and not n.startswith("__")]
        return vis, [res["mem"][si]["%d:%s" % (eff[n][1], n)][what] for n in vis]

    def union_keys(c, si):
        _, outs = member_outs(c, si, "keys")
        if all(isinstance(x, list) for x in outs):
            return sorted(set().union(*map(set, outs))) if outs else []
        return None

    def restricted(c, si):
        ks = union_keys(c, si)
        if ks is None:
            return None
        try:
            return restrict(dec(res["snaps"][si]), ks)
        except KeyError:
            return None

    def check_repr(i, c, si, r, what):
        R = restricted(c, si)
        if R is None or r is None:
            return
        shown = shown_options(r, cname(c))
        if shown is None or not same(shown, R):
            problems.append((i, "property", f"{what} is {r!r}; the options restricted to the keys of {cname(c)}'s own members "
                                            f"({union_keys(c, si)}) are {R!r}"))

    # A @dataset's cache files results under the JSON text of the options it reads: contents that differ only in
    # tuple-versus-list (namedtuple-versus-list) share an entry.  That is a matter of the cache (assumption "dataset caches
    # are value-transparent"), observed and recorded, not judged here: when another dictionary of this history has the same
    # JSON text as the step's, the attributes of dataset members are left out of the comparisons of that step.
    jsonish = [json.dumps(canon_wire(jsonish_wire(sn))) for sn in res["snaps"]]
    shares_cache_entry = [jsonish.count(x) > 1 for x in jsonish]
    exempt_steps = []

    def without_ds(c, si, out):
        """an instantiation outcome without the attributes of dataset members, when the step's contents share a cache entry"""
        if si is None or not shares_cache_entry[si] or not isinstance(out, dict) or "attrs" not in out:
            return out
        dsn = {n for n, (s, _) in fam_flatten(fc, c).items() if s["k"] == "ds"}
        return dict(out, attrs=[[n, v] for n, v in out["attrs"] if n not in dsn])

    for i, (op, st) in enumerate(zip(ops, res["steps"])):
        k = st["k"]
        if k in ("set", "del"):
            continue
        c = st["c"]
        if c is None:
            continue
        call = {"keys": "%s.keys(o)", "explain": "%s.explain(o)", "validate": "%s.validate(o)", "inst": "%s(o)",
                "repr": "repr of the %s instance", "eq": "== of two %s instances"}[k] % cname(c)
        got, ref = st["got"], st["ref"]
        # (a repr is compared as the dictionary it prints, read back: a set prints its members in iteration order, which
        # depends on how the set was built, not on its contents)
        if k == "inst" and got != ref and without_ds(c, st["si"], got) == without_ds(c, st["si"], ref):
            exempt_steps.append(i)
            got, ref = without_ds(c, st["si"], got), without_ds(c, st["si"], ref)
        # 1. history independence
        if _norm_repr_out(got, cname(c)) != _norm_repr_out(ref, cname(c)):
            problems.append((i, "history", f"step {i}: {call} gives {json.dumps(got)} at this point of the history, but "
                                           f"{json.dumps(ref)} when it is the first thing done with a freshly built family and a "
                                           f"fresh dictionary of equal contents"))
        if st.get("mut"):
            problems.append((i, "property", f"step {i}: {call} changed the dictionary it was given"))
        # 2. the property, from the class's own members asked alone
        si = st["si"]
        if k in ("keys", "explain"):
            _, outs = member_outs(c, si, k)
            if all(isinstance(x, list) for x in outs):
                want = sorted(set().union(*map(set, outs))) if outs else []
                if got != want:
                    problems.append((i, "property", f"step {i}: {call} = {got} is not the union over {cname(c)}'s own members = {want}"))
            elif not is_err(got):
                problems.append((i, "property", f"step {i}: {call} succeeds ({got}) although a member's {k} fails"))
        elif k == "validate":
            vis, outs = member_outs(c, si, "validate")
            if all(v == "ok" for v in outs) != (got == "ok"):
                problems.append((i, "property", f"step {i}: {call} = {got} but the members' validate = {dict(zip(vis, outs))}"))
        elif k == "inst":
            eff = fam_flatten(fc, c)
            vis, evs = member_outs(c, si, "ev")
            if not is_err(got):
                attrs = dict((n, v) for n, v in got["attrs"])
                for n, (s, _) in eff.items():
                    if s["k"] == "const":
                        if attrs.get(n) != s["v"]:
                            problems.append((i, "property", f"step {i}: plain member {n} of {call} is {attrs.get(n)}, constant is {s['v']}"))
                    elif not n.startswith("__") and not (i in exempt_steps and n not in attrs):
                        ev = evs[vis.index(n)]
                        if is_err(ev) or attrs.get(n) != ev["ok"]:
                            problems.append((i, "property", f"step {i}: attribute {n} of {call} is {attrs.get(n)}, member evaluates to {ev}"))
                check_repr(i, c, si, got["repr"], f"step {i}: repr({call})")
            elif all(not is_err(e) for e in evs) and union_keys(c, si) is not None:
                problems.append((i, "property", f"step {i}: {call} fails with {got['err']} although every member evaluates"))
        elif k == "repr":
            check_repr(i, c, si, got, f"step {i}: {call} (register {op['r']})")
        elif k == "eq" and got is not None and st.get("cb") == c and st.get("sib") is not None:
            Ra, Rb = restricted(c, si), restricted(c, st["sib"])
            if Ra is not None and Rb is not None:
                if got["eq"] != (Ra == Rb):
                    problems.append((i, "property", f"step {i}: a == b is {got['eq']} for two {cname(c)} instances whose options restricted "
                                                    f"to {cname(c)}'s keys are {Ra!r} and {Rb!r}"))
                if got["ne"] != (not got["eq"]):
                    problems.append((i, "property", f"step {i}: a != b is {got['ne']} while a == b is {got['eq']}"))
        # 3. the model
        if model_of is not None and reqs[i] is not None:
            m = model_of(hist_model_line(fc, res, reqs[i]))
            if m is None:
                continue
            if "driver_error" in m:
                disagreements.append((i, "driver rejected the class: " + m["driver_error"]))
                continue
            if k == "eq":
                mg = m["eq"]
                ig = None if got is None else got["eq"]
            elif k == "repr":
                mg = None if is_err(m["i1"]) else m["i1"]["repr"]
                ig = got
            else:
                mg = m[{"keys": "keys1", "explain": "explain1", "validate": "validate1", "inst": "i1"}[k]]
                ig = got
            if i in exempt_steps:           # the same attributes are left out of the model's answer
                mg = without_ds(c, st["si"], mg)
            if mg != model_view(ig):
                disagreements.append((i, f"step {i}: {call}: implementation {json.dumps(ig)}, model {json.dumps(mg)}"))
    if notes is not None:
        notes.extend(exempt_steps)
    return problems, disagreements


def jsonish_wire(j):
    """a wire value as the JSON text of the options would have it: tuples and namedtuples are arrays"""
    if isinstance(j, dict):
        if "nt" in j:
            return {"l": [jsonish_wire(x) for x in j["nt"][1]]}
        if "t" in j or "l" in j:
            return {"l": [jsonish_wire(x) for x in j.get("t", j.get("l"))]}
        if "d" in j:
            return {"d": [[k, jsonish_wire(x)] for k, x in j["d"]]}
    return j


def hist_shrink_candidates(h):
    out = []
    for i, op in enumerate(h["ops"]):
        c = copy.deepcopy(h)
        gone = {op.get("r")} - {None}
        c["ops"] = [o for j, o in enumerate(c["ops"]) if j != i and not ({o.get("r") if o["op"] == "repr" else None,
                                                                         o.get("a"), o.get("b")} & gone)]
        out.append(c)
    used = {o["c"] for o in h["ops"] if "c" in o}
    parents = {cl["parent"] for cl in h["classes"]}
    last = len(h["classes"]) - 1
    if last > 0 and last not in used and last not in parents:
        c = copy.deepcopy(h); del c["classes"][last]; out.append(c)
    for ci, cl in enumerate(h["classes"]):
        for mi in range(len(cl["own"])):
            c = copy.deepcopy(h); del c["classes"][ci]["own"][mi]; out.append(c)
        for mi, m in enumerate(cl["own"]):
            if m[1]["k"] == "opt" and "d" in m[1]:
                c = copy.deepcopy(h); del c["classes"][ci]["own"][mi][1]["d"]; out.append(c)
            if m[1]["k"] == "ds":
                for a in range(len(m[1]["args"])):
                    c = copy.deepcopy(h); del c["classes"][ci]["own"][mi][1]["args"][a]; out.append(c)
    if h.get("build") != "type":
        c = copy.deepcopy(h); c["build"] = "type"; out.append(c)
    if len(h["slots"]) > 1 and not any(o.get("s") == len(h["slots"]) - 1 for o in h["ops"]):
        c = copy.deepcopy(h); del c["slots"][-1]; out.append(c)
    for si, s in enumerate(h["slots"]):
        o = dec(s)
        for p in paths_of(o):
            o2 = copy.deepcopy(o)
            del_nested(o2, p)
            c = copy.deepcopy(h); c["slots"][si] = enc(o2); out.append(c)
    return out


def hist_failing(hs):
    return [bool(hist_check(h, r)[0]) for h, r in zip(hs, run_impl(hs))]


def hist_shrink(h, rounds=40):
    for _ in range(rounds):
        cands = hist_shrink_candidates(h)
        if not cands:
            break
        nxt = next((c for c, f in zip(cands, hist_failing(cands)) if f), None)
        if nxt is None:
            break
        h = nxt
    return h


def hist_samples(fc, res):
    """a history written out: the operations with the outcome observed"""
    out = []
    for op, st in zip(fc["ops"], res["steps"]):
        d = dict(op)
        if "c" in d:
            d["c"] = fc["classes"][d["c"]]["name"]
        if "got" in st:
            g = st["got"]
            d["outcome"] = g["repr"] if isinstance(g, dict) and "repr" in g else g
        out.append(d)
    return out


def replay_history(ctx, payload) -> int:
    h = payload["history"]
    err = lean_build(["drv_dsclass"])
    if err:
        print("cannot build drv_dsclass:", err[-500:])
        return 2
    res = run_impl([h])[0]
    if "runner_error" in res:
        print("runner error:", res["runner_error"])
        return 2
    lines = sorted({hist_model_line(h, res, q) for q in hist_model_requests(h, res) if q is not None})
    mout = dict(zip(lines, [json.loads(l) for l in run_driver("drv_dsclass", lines)])) if lines else {}
    notes = []
    problems, disagreements = hist_check(h, res, mout.get, notes)
    print("family   :", h.get("name"), "(build: %s)" % h.get("build"))
    for i, cl in enumerate(h["classes"]):
        par = "" if cl["parent"] is None else "(%s)" % h["classes"][cl["parent"]]["name"]
        print("  class %s%s%s: own members %s" % (cl["name"], par, "" if cl["deco"] else " [not decorated again]",
                                                 [[m[0], m[1]] for m in cl["own"]]))
    print("dicts    :", h.get("dicts", h["mode"]), "-", "one dictionary object per slot, reused by every call" if h["mode"] == "shared"
          else "a fresh dictionary object of the slot's current contents for every call")
    for si, s in enumerate(h["slots"]):
        print("  slot %d  : %r" % (si, dec(s)))
    reqs = hist_model_requests(h, res)
    for i, (op, st) in enumerate(zip(h["ops"], res["steps"])):
        d = dict(op)
        if "c" in d:
            d["c"] = h["classes"][d["c"]]["name"]
        if "v" in d:
            d["v"] = dec(d["v"])
        print("step %-2d  : %s" % (i, json.dumps(d)))
        if "got" in st:
            print("   here  :", json.dumps(st["got"], sort_keys=True))
            print("   first :", json.dumps(st["ref"], sort_keys=True), " (same operation first thing on a fresh family, fresh dictionary)")
    for i in notes:
        print("NOTE     : step %d: the attributes of dataset members are not judged (another dictionary of this history has the "
              "same JSON text, and a @dataset's cache files results under it)" % i)
    if any(q is None and st.get("si") is not None and st["k"] not in ("set", "del") for q, st in zip(reqs, res["steps"])):
        print("NOTE     : steps over dictionaries holding values the model cannot represent are judged by the property oracle alone")
    for _, orc, p in problems:
        print(("HISTORY  :" if orc == "history" else "PROPERTY :"), p)
    for _, p in disagreements:
        print("DIFFERS  :", p)
    if problems or disagreements:
        print("verdict  : still failing")
        return 1
    print("verdict  : passes")
    return 0


# ----------------------------------------------------------------------------- explore

def nontrivial(case, res):
    """both instances were built and the class reports at least one nested (dotted) key"""
    obs = res.get("obs", {})
    if is_err(obs.get("i1", {"err": 1})) or is_err(obs.get("i2", {"err": 1})):
        return False
    ks = [k for j in ("1", "2") if isinstance(obs.get("keys" + j), list) for k in obs["keys" + j]]
    return any("." in k for k in ks)


def make_cases(ctx):
    rng = random.Random(ctx.seed)
    cases = corpus()
    n_corpus = len(cases)
    if ctx.tier == "thorough":
        cases += list(exhaustive())
        n_random = 12000
    else:
        pairs = list(itertools.product(range(len(SMALL_OPTS)), repeat=2))
        sub = rng.sample(pairs, 27)
        cases += list(exhaustive(sub))
        n_random = 1200
    n_exh = len(cases) - n_corpus
    for n in range(n_random):
        cases.append(gen_case(rng, n))
    # value kinds (after the streams above, which stay as they were): the directed family, then random classes over
    # dictionaries of rich values - a stream of its own
    directed = value_cases(ctx.seed)
    cases += directed
    vrng = random.Random(ctx.seed * 1000003 + 1919)
    n_vrandom = 4000 if ctx.tier == "thorough" else 150
    for n in range(n_vrandom):
        c = gen_case(vrng, n, rich_val)
        c["kind"] = "value-random:" + c["kind"]
        cases.append(c)
    return cases, n_corpus, n_exh, n_random, len(directed), n_vrandom


def known_ids():
    return {e.get("id") for e in known_findings().get("known", []) if isinstance(e, dict)}


class ValueStats:
    """per value kind: dictionaries generated holding it under a key the class reports (plain / dotted), instances built,
    pairs whose == was decided, how the oracle's verdicts split"""

    def __init__(self):
        self.kind = {}
        self.pairs = Counter()
        self.placements = Counter()
        self.outside = self.failing = 0

    def slot(self, k):
        return self.kind.setdefault(k, Counter())

    def see(self, case, res, outside, failed):
        self.outside += outside
        self.failing += failed
        obs = res["obs"]
        both = not is_err(obs["i1"]) and not is_err(obs["i2"]) and obs["eq"] is not None
        seen = set()
        for j in ("1", "2"):
            ks = obs["keys" + j] if isinstance(obs["keys" + j], list) else []
            o = dec(case["o" + j])
            for key in ks:
                v = get_nested(o, key)
                if v is KeyError:
                    continue
                for k in kinds_in(enc(v)):
                    c = self.slot(k)
                    c["under_dotted_key" if "." in key else "under_plain_key"] += 1
                    if not is_err(obs["i" + j]):
                        c["repr_decided"] += 1
                    seen.add(k)
        for k in seen:
            c = self.slot(k)
            c["pairs"] += 1
            if both:
                c["eq_decided"] += 1
                c["eq_true" if obs["eq"] else "eq_false"] += 1
        if str(case.get("kind", "")).startswith("value:"):
            self.placements[case.get("placement", "?")] += 1
            if both:
                self.pairs["%s vs %s: %s" % (case["pair"][0], case["pair"][1], "equal" if obs["eq"] else "different")] += 1

    def report(self, n_directed, n_random, hcov):
        return {
            "what": "per kind of value: how many dictionaries held it under a key the class reported (plain / dotted key), for "
                    "how many of those the instance was built (repr decided), in how many pairs (eq decided, with the verdicts)",
            "directed_cases": n_directed, "random_cases_over_rich_values": n_random,
            "directed_placements": dict(sorted(self.placements.items())),
            "directed_pairs_decided": dict(sorted(self.pairs.items())),
            "per_kind_in_cases": {k: dict(sorted(c.items())) for k, c in sorted(self.kind.items())},
            "per_kind_in_history_dictionaries": hcov["value_kinds"],
        }


def explore(ctx: Ctx) -> Exploration:
    cases, n_corpus, n_exh, n_random, n_vdirected, n_vrandom = make_cases(ctx)
    fams, hists = make_histories(ctx)
    # one implementation process and one model process for the cases and the histories together
    impl_all = run_impl(cases + hists)
    impl, himpl = impl_all[:len(cases)], impl_all[len(cases):]
    hlines = sorted({hist_model_line(h, r, q) for h, r in zip(hists, himpl) if "runner_error" not in r
                     for q in hist_model_requests(h, r) if q is not None})
    inside = [n for n, c in enumerate(cases) if not case_outside_model(c)]
    mlines = run_driver("drv_dsclass", [model_line(cases[n]) for n in inside] + hlines)
    if len(mlines) != len(inside) + len(hlines):
        raise Infra(f"driver produced {len(mlines)} lines for {len(inside) + len(hlines)} cases")
    model = [None] * len(cases)          # None: the case holds values outside the model; the property oracle alone judges it
    for n, l in zip(inside, mlines):
        model[n] = json.loads(l)
    hmodel = dict(zip(hlines, (json.loads(l) for l in mlines[len(inside):])))
    findings = []
    hcov = explore_histories(ctx, fams, hists, himpl, hmodel, findings)
    corr, orc = [], []
    vstats = ValueStats()
    dist = Counter()
    errs = Counter()
    distinct = set()
    candidates = []
    for c, i, m in zip(cases, impl, model):
        if "runner_error" in i:
            findings.append(Finding("translator", "implementation runner could not build the case: " + i["runner_error"],
                                    {"case": c}))
            continue
        if m is not None and "driver_error" in m:
            findings.append(Finding("translator", "driver rejected the case: " + m["driver_error"], {"case": c}))
            continue
        if m is not None and model_view(i["obs"]) != m:
            corr.append((c, i, m))
        probs = oracle(c, i)
        if probs:
            orc.append((c, i, probs))
        vstats.see(c, i, m is None, bool(probs))
        # statistics
        for _, s in flatten(c):
            dist["member:" + s["k"] + (":default" if "d" in s else "")] += 1
        dist["build:" + c["build"]] += 1
        dist["inherit:" + (c["inherit"] if c["base"] else "none")] += 1
        dist["pair:" + c.get("kind", "fixed")] += 1
        dist["members:%d" % len(flatten(c))] += 1
        dist["eq:" + str(i["obs"]["eq"])] += 1
        for f in ("i1", "i2", "keys1", "validate1", "explain1"):
            if is_err(i["obs"][f]):
                errs[f + ":" + i["obs"][f]["err"].split(":")[0]] += 1
        if nontrivial(c, i):
            distinct.add(json.dumps([flatten(c), c["o1"], c["o2"]], sort_keys=True))
        # index keys + prefix: outside the theorem's side condition (candidate finding, see classify)
        if has_index_key(c) and any(is_err(i["obs"]["i" + j]) and i["obs"]["i" + j]["err"] == "RawTypeError"
                                    and all(not is_err(v["ev"]) for v in i["extra"]["members" + j].values())
                                    for j in ("1", "2")):
            candidates.append(c)
    for c, i, m in corr[:3]:
        small = shrink(c, corr_failing)
        si, sm = run_impl([small])[0], run_model([small])[0]
        diff = sorted(k for k in sm if model_view(si["obs"]).get(k) != sm.get(k))
        findings.append(Finding("correspondence", f"model and implementation disagree on {diff}",
                                {"case": small, "impl": si.get("obs"), "model": sm, "original_case": c}))
    for c, i, m in corr[3:20]:
        diff = sorted(k for k in m if model_view(i["obs"]).get(k) != m.get(k))
        findings.append(Finding("correspondence", f"model and implementation disagree on {diff}",
                                {"case": c, "impl": i["obs"], "model": m}))
    for n, (c, i, probs) in enumerate(orc[:20]):
        small, si, sp = c, i, probs
        if n < 3:
            small = shrink(c, oracle_failing)
            si = run_impl([small])[0]
            sp = oracle(small, si) or probs
        findings.append(Finding("failing-input", sp[0], {"case": small, "impl": si.get("obs"), "extra": si.get("extra"),
                                                          "problems": sp, "original_case": c}))
    if candidates and "C19-INDEX-KEYS" in known_ids():
        findings.append(Finding("failing-input", "members on `L` and `L.0`: cls(o) raises TypeError from set_dotted_key",
                                {"case": candidates[0]}, known_id="C19-INDEX-KEYS"))
    samples = []
    for c, i in list(zip(cases, impl))[3:8]:
        samples.append({"members": flatten(c), "o1": dec(c["o1"]), "o2": dec(c["o2"]), "eq": i["obs"]["eq"],
                        "repr1": None if is_err(i["obs"]["i1"]) else i["obs"]["i1"]["repr"]})
    cov = {
        "evaluations": len(cases) + len(hists),
        "cases": len(cases),
        "histories": hcov,
        "programs": len({json.dumps([flatten(c), c["build"], c["inherit"], bool(c["base"])], sort_keys=True) for c in cases}),
        "distinct_nontrivial": len(distinct),
        "rule": "distinct (members, o1, o2) where both instances were built and a nested (dotted) key is reported",
        "disagreements_checked": len(inside),
        "value_kinds": vstats.report(n_vdirected, n_vrandom, hcov),
        "values_outside_the_model": {
            "kinds": list(OUTSIDE_KINDS),
            "what": "tuples, namedtuples, sets, frozensets, bytes, floats, ints beyond 2**53, user objects and the ints 0 / 1 "
                    "(Python's True == 1 == 1.0) have no counterpart in LabreaModel/Value.lean (one sequence type, integers, "
                    "no cross-type equality); a case or history step whose dictionaries / defaults hold one is not sent to "
                    "drv_dsclass and is judged by the property oracle alone: repr(instance) read back must be the options "
                    "restricted to the reported keys with the same types throughout, a == b must be Python's == on the "
                    "two restricted dictionaries, and later edits of the caller's values change neither",
            "cases": len(cases) - len(inside), "cases_with_model": len(inside),
            "history_steps": hcov["steps_outside_the_model"], "history_steps_with_model": hcov["steps_with_model"],
        },
        "observed_outside_this_property": [
            "a @dataset's cache identifies option values that serialise to the same JSON: d({'W': (1, 5)}) followed by "
            "d({'W': [1, 5]}) returns the tuple-holding result for the list (a cache matter, assumption 'dataset caches are "
            "value-transparent'); history steps where this shows in a dataset member's attribute are counted under "
            "histories.cache_lookalike_steps and not judged",
            "a @dataset member cannot be evaluated at all when a key it reads holds a set / frozenset / bytes / user object "
            "(TypeError: not JSON serializable, from the cache key); such instances fail to build, consistently with the member "
            "asked alone, so they decide nothing about repr / ==",
        ],
        "correspondence_disagreements": len(corr) + hcov["model_disagreements"],
        "oracle_failures": len(orc) + hcov["failing"],
        "corpus": n_corpus, "exhaustive_cases": n_exh, "random": n_random,
        "out_of_scope_candidates": len(candidates),
        "samples": samples,
        "distribution": {"generated": dict(sorted(dist.items())), "errors_hit": dict(sorted(errs.items()))},
    }
    return Exploration(findings, cov)


def explore_histories(ctx, fams, hists, himpl, hmodel, findings):
    """decide every history; -> the counts recorded under coverage.histories"""
    bad, corr = [], []
    dist = Counter()
    pairs = {}
    distinct = set()
    n_ops = n_edits = n_refs = n_err = n_exempt = n_outside = n_inside = 0
    cache_sample = None
    vk = {}
    for h, r in zip(hists, himpl):
        if "runner_error" in r:
            findings.append(Finding("translator", "implementation runner could not run the history: " + r["runner_error"],
                                    {"history": h}))
            continue
        notes = []
        problems, disagreements = hist_check(h, r, hmodel.get, notes)
        n_exempt += len(notes)
        if notes and cache_sample is None:
            cache_sample = {"family": h["name"], "step": notes[0], "operation": h["ops"][notes[0]],
                            "here": r["steps"][notes[0]]["got"], "first_thing_on_a_fresh_family": r["steps"][notes[0]]["ref"]}
        reqs = hist_model_requests(h, r)
        for st, q in zip(r["steps"], reqs):
            if st["k"] not in ("set", "del") and st.get("si") is not None:
                if q is None and not (st["k"] == "eq" and st.get("cb") != st["c"]):
                    n_outside += 1
                elif q is not None:
                    n_inside += 1
        dist["values:" + h.get("values", "json")] += 1
        read = sorted({key for c_ in {o["c"] for o in h["ops"] if "c" in o} for key in fam_keys(h, c_)})
        for sn in r["snaps"]:
            content = dec(sn)
            for key in read:
                v = get_nested(content, key)
                if v is not KeyError:
                    for kk in kinds_in(enc(v)):
                        vk.setdefault(kk, Counter())["under_dotted_key" if "." in key else "under_plain_key"] += 1
        for st in r["steps"]:
            if st["k"] == "eq" and st.get("got") is not None and st.get("si") is not None and st.get("sib") is not None:
                for kk in set(kinds_in(r["snaps"][st["si"]])) | set(kinds_in(r["snaps"][st["sib"]])):
                    vk.setdefault(kk, Counter())["eq_steps_over_dictionaries_holding_it"] += 1
        if problems:
            bad.append((h, r, problems))
        elif disagreements:
            corr.append((h, r, disagreements))
        n_refs += r["new_refs"]
        dist["shape:" + h["shape"]] += 1
        dist["order:" + h["order"]] += 1
        dist["dicts:" + h["dicts"]] += 1
        dist["second-instance:" + h["second"]] += 1
        dist["derived:" + ("decorated" if h["classes"][-1]["deco"] else "plain-subclass")] += 1
        dist["build:" + h["build"]] += 1
        if "edit_plan" in h:
            dist["edits:" + h["edit_plan"]] += 1
        pairs.setdefault(h["dicts"], set()).add(tuple(h["first_ops"]))
        for op, st in zip(h["ops"], r["steps"]):
            dist["op:" + op["op"]] += 1
            if op["op"] in ("set", "del"):
                n_edits += 1
            else:
                n_ops += 1
                if is_err(st.get("got")):
                    n_err += 1
        touched = {tuple(fam_keys(h, o["c"])) for o in h["ops"] if "c" in o}
        eqs = [st for st in r["steps"] if st["k"] == "eq"]
        if len(touched) > 1 and eqs and all(st["got"] is not None for st in eqs):
            distinct.add(json.dumps([h["classes"], h["build"], h["mode"], h["slots"], h["ops"]], sort_keys=True))
    for n, (h, r, problems) in enumerate(bad[:10]):
        small, sr, sp = h, r, problems
        if n < 2:
            small = hist_shrink(h)
            sr = run_impl([small])[0]
            sp = hist_check(small, sr)[0] or problems
        findings.append(Finding("failing-input", sp[0][2], {"history": small, "steps": sr.get("steps"),
                                                            "problems": [p[2] for p in sp], "original_history": h}))
    for h, r, disagreements in corr[:10]:
        findings.append(Finding("correspondence", "history: model and implementation disagree: " + disagreements[0][1],
                                {"history": h, "steps": r.get("steps"), "disagreements": [d[1] for d in disagreements]}))
    sample = None
    for h, r in zip(hists, himpl):
        if "runner_error" not in r and h["dicts"] == "shared-edited" and len(h["classes"]) >= 3:
            sample = {"family": h["name"], "classes": [[c["name"], c["parent"], [[m[0], m[1]] for m in c["own"]]] for c in h["classes"]],
                      "order": h["order"], "dicts": h["dicts"], "slot0": dec(h["slots"][0]), "history": hist_samples(h, r)}
            break
    return {
        "what": "histories of keys / validate / explain / instantiate / repr / == over a family of related dataset classes "
                "(base, derived adding / redefining members, two levels, siblings), interleaved in every order, with fresh "
                "dictionaries, with one dictionary object reused unchanged, and with one dictionary edited in place between "
                "the calls; every step is compared with the same operation done first on a freshly built family with a fresh "
                "dictionary of equal contents, with the union over the class's own members, and with the model",
        "families": len(fams), "histories": len(hists), "operations": n_ops, "in_place_edits": n_edits,
        "fresh_family_references": n_refs, "model_lines": len(hmodel), "error_outcomes": n_err,
        "distinct_nontrivial": len(distinct),
        "rule": "distinct (family, dictionaries, operations) that operate on classes with different key sets and build both "
                "compared instances",
        "first_operation_pairs_covered": {m: "%d/16" % len(v) for m, v in sorted(pairs.items())},
        "failing": len(bad), "model_disagreements": len(corr),
        "steps_with_model": n_inside, "steps_outside_the_model": n_outside,
        "cache_lookalike_steps": n_exempt, "cache_lookalike_sample": cache_sample,
        "value_kinds": {k: dict(sorted(c.items())) for k, c in sorted(vk.items())},
        "distribution": dict(sorted(dist.items())),
        "sample": sample,
    }


def failing_input_search(ctx, why):
    """larger random budget, oracle only"""
    rng = random.Random(ctx.seed + 7919)
    cases = [gen_case(rng, n) for n in range(6000)] + [gen_case(rng, n, rich_val) for n in range(2000)]
    impl = run_impl(cases)
    out = []
    for c, i in zip(cases, impl):
        probs = oracle(c, i)
        if probs:
            small = shrink(c, oracle_failing)
            si = run_impl([small])[0]
            out.append(Finding("failing-input", (oracle(small, si) or probs)[0],
                               {"case": small, "impl": si.get("obs"), "extra": si.get("extra"), "original_case": c}))
            if len(out) >= 3:
                break
    return out


def replay(ctx, payload) -> int:
    if "history" in payload:
        return replay_history(ctx, payload)
    case = payload["case"]
    err = lean_build(["drv_dsclass"])
    if err:
        print("cannot build drv_dsclass:", err[-500:])
        return 2
    i, m = run_impl([case])[0], run_model([case])[0]
    if m is None:
        print("note     : the dictionaries hold values the model cannot represent (%s): judged by the property oracle alone"
              % ", ".join(sorted(k for k in (kinds_in(case["o1"]) + kinds_in(case["o2"])) if k in OUTSIDE_KINDS)))
    print("case     :", json.dumps(case))
    print("members  :", flatten(case))
    print("o1       :", dec(case["o1"]))
    print("o2       :", dec(case["o2"]))
    print("impl     :", json.dumps(i.get("obs"), sort_keys=True))
    print("model    :", json.dumps(m, sort_keys=True))
    probs = oracle(case, i)
    agree = m is None or model_view(i.get("obs")) == m
    for p in probs:
        print("PROPERTY :", p)
    if not agree:
        print("DIFFERS  :", sorted(k for k in m if model_view(i.get("obs", {})).get(k) != m.get(k)))
    cid = classify(payload)
    if cid:
        print("classify :", cid)
    if probs or not agree:
        print("verdict  : still failing")
        return 1
    print("verdict  : passes")
    return 0


if __name__ == "__main__":
    sys.exit(main_check(SPEC, explore, failing_input_search, replay))

"""C19 — dataset classes: members are evaluations; equality follows the relevant options.

Correspondence: generated dataset classes (built with `labrea.datasetclass` from `type(...)` /
`exec` of a class body; options with flat / dotted keys and constant defaults, constants,
`@dataset` members reading options, members inherited from a plain base class or from another
dataset class, `__`-members) x pairs of option dictionaries, run on the real code and on the Lean
model (`drv_dsclass`); observations: instance attributes, `repr`, `==`, class `keys / explain /
validate` outcomes.

Property oracle (implementation alone): attributes equal the member-wise evaluation; class
keys/explain/validate are the union/conjunction over the members; `(a == b) ==
(restrict(o1, keys1) == restrict(o2, keys2))` with an independent `restrict`; repr shows exactly the
restricted dictionary; inputs are never mutated and an instance does not change when the caller
later writes into the dictionary it was built from.
"""
import sys
from pathlib import Path
sys.path.insert(0, str(Path(__file__).resolve().parent.parent))
from common import *          # noqa: F401,F403
import ast
import copy
import itertools
import json
import random
from collections import Counter

SPEC = PropSpec(
    pid="C19",
    lean_modules=["LabreaProps.C19"],
    model_files=["LabreaModel/DatasetClass.lean", "LabreaModel/DatasetClassLemmas.lean",
                 "LabreaModel/Dotted.lean", "LabreaModel/Value.lean", "DrvDsclass.lean"],
    drivers=["drv_dsclass"],
    trusted_base=[
        "correspondence between LabreaModel/DatasetClass.lean and labrea/datasetclass.py + Option / "
        "@dataset members (checked differentially by this harness, not proved)",
        "CPython attribute lookup / dir() order / MRO flattening of inherited members (done by the harness)",
        "confectioner get_dotted_key / set_dotted_key as modelled by walk / setPath",
    ],
    assumptions=[
        "reported keys are non-empty, contain no index segment (all-digit) and are present in the options "
        "(`Present`); shown necessary in Lean (repr_options_side_conditions_needed); concrete Option/dataset "
        "members satisfy presence by theorem concrete_present",
        "option values are JSON without template braces; ints other than 0/1 (Python's True == 1 is not modelled)",
        "abstract members are functions of the options only (no hidden state); dataset caches are value-transparent",
        "`isinstance(other, self.__class__)` is modelled as 'same class' (instances of one class are compared; "
        "a twin class with identical members compares unequal)",
    ],
)

# ----------------------------------------------------------------------------- wire codec
# values: None | bool | int | str | {"l": [...]} | {"d": [[k, v], ...]}   (dicts keep their order)
CODEC = r'''
def enc(v):
    if v is None or isinstance(v, (bool, int, str)):
        return v
    if isinstance(v, (list, tuple)):
        return {"l": [enc(x) for x in v]}      # (a tuple constant travels as a list: the model has one sequence type)
    if isinstance(v, dict):
        return {"d": [[k, enc(x)] for k, x in v.items()]}
    return {"weird": type(v).__name__}

def dec(j):
    if isinstance(j, dict):
        if "l" in j:
            return [dec(x) for x in j["l"]]
        return {k: dec(x) for k, x in j["d"]}
    return j
'''
exec(CODEC, globals())

# ----------------------------------------------------------------------------- implementation runner
RUNNER = CODEC + r'''
import sys, os, json, ast, logging
sys.path.insert(0, os.environ["VERIF_REPO_PATH"])
logging.disable(logging.CRITICAL)
from labrea import dataset, datasetclass, Option
from labrea.types import Evaluatable
from labrea.exceptions import EvaluationError, KeyNotFoundError

def canon_exc(e):
    if isinstance(e, KeyNotFoundError):
        return "KeyNotFoundError:" + str(e.key)
    if isinstance(e, EvaluationError):
        root = e
        while (isinstance(root, EvaluationError) and not isinstance(root, KeyNotFoundError)
               and root.__cause__ is not None):
            root = root.__cause__
        if root is e:
            return "EvaluationError<?>"
        return "EvaluationError<" + canon_exc(root) + ">"
    if isinstance(e, (TypeError, AttributeError)):
        return "RawTypeError"
    if isinstance(e, KeyError):
        return "KeyError:" + str(e.args[0])
    return "Other:" + type(e).__name__

def mkopt(s):
    if "d" in s:
        return Option(s["key"], default=dec(s["d"]))
    return Option(s["key"])

def mk(spec):
    k = spec["k"]
    if k == "const":
        v = dec(spec["v"])
        # "tup": the constant is a tuple (immutable itself, its elements need not be)
        return tuple(v) if spec.get("tup") and isinstance(v, list) else v
    if k == "opt":
        return mkopt(spec)
    if k == "ds":
        args = [mkopt(a) for a in spec["args"]]
        params = ", ".join("a%d=_d[%d]" % (i, i) for i in range(len(args)))
        body = "[" + ", ".join("a%d" % i for i in range(len(args))) + "]"
        ns = {"_d": args}
        exec("def dsf(%s):\n    return %s\n" % (params, body), ns)
        return dataset(ns["dsf"])
    raise ValueError(k)

def plain_class(name, bases, members, how):
    """members: [[attr, spec, annotated]]"""
    objs = {n: mk(s) for n, s, _ in members}
    if how == "exec":
        lines = ["class %s(%s):" % (name, ", ".join("_b%d" % i for i in range(len(bases))))]
        for n, _, ann in members:
            lines.append("    %s%s = _m[%r]" % (n, ": object" if ann else "", n))
        if not members:
            lines.append("    pass")
        ns = {"_m": objs}
        ns.update({"_b%d" % i: b for i, b in enumerate(bases)})
        exec("\n".join(lines) + "\n", ns)
        return ns[name], objs
    ns = dict(objs)
    ann = {n: object for n, _, a in members if a}
    if ann:
        ns["__annotations__"] = ann
    return type(name, tuple(bases), ns), objs

def build(case, name):
    how = case.get("build", "type")
    inh = case.get("inherit", "plain")
    objs = {}
    if case["base"]:
        base, bo = plain_class("Base" + name, (), case["base"], how)
        objs.update(bo)
        if inh == "dcsub":
            base = datasetclass(base)
            cls, oo = plain_class(name, (base,), case["own"], how)   # metaclass is inherited
            objs.update(oo)
            return cls, objs
        if inh == "dcboth":
            # a dataset class derived from a dataset class, itself decorated
            base = datasetclass(base)
            cls, oo = plain_class(name, (base,), case["own"], how)
            objs.update(oo)
            return datasetclass(cls), objs
        cls, oo = plain_class(name, (base,), case["own"], how)
    else:
        cls, oo = plain_class(name, (), case["own"], how)
    objs.update(oo)
    return datasetclass(cls), objs

def outcome(f, ok=lambda x: x):
    try:
        return ok(f())
    except Exception as e:
        return {"err": canon_exc(e)}

def scribble(x):
    if isinstance(x, dict):
        for k in list(x):
            if isinstance(x[k], (dict, list)):
                scribble(x[k])
            else:
                x[k] = "scribbled"
        x["scribbled-key"] = 1
    elif isinstance(x, list):
        for i in range(len(x)):
            if isinstance(x[i], (dict, list, tuple)):
                scribble(x[i])
            else:
                x[i] = "scribbled"
        x.append("scribbled")
    elif isinstance(x, tuple):
        for y in x:
            if isinstance(y, (dict, list, tuple)):
                scribble(y)

def run(case):
    name = case["name"]
    C, objs = build(case, name)
    Twin, _ = build(case, name + "Twin")
    names = sorted(objs)
    obs, extra = {}, {}
    insts = {}
    opts = {}
    for j in ("1", "2"):
        o = dec(case["o" + j])
        opts[j] = o
        def inst_obs():
            inst = C(o)
            insts[j] = inst
            attrs = []
            for n in names:
                v = getattr(inst, n)
                attrs.append([n, {"unevaluated": True} if isinstance(v, Evaluatable) else enc(v)])
            return {"attrs": attrs, "repr": repr(inst)}
        obs["i" + j] = outcome(inst_obs)
        obs["keys" + j] = outcome(lambda: sorted(C.keys(o)))
        obs["explain" + j] = outcome(lambda: sorted(C.explain(o)))
        obs["validate" + j] = outcome(lambda: C.validate(o), ok=lambda _: "ok")
        mem = {}
        for n in names:
            m = objs[n]
            if isinstance(m, Evaluatable) and not n.startswith("__"):
                mem[n] = {
                    "ev": outcome(lambda: m.evaluate(o), ok=lambda v: {"ok": enc(v)}),
                    "keys": outcome(lambda: sorted(m.keys(o))),
                    "explain": outcome(lambda: sorted(m.explain(o))),
                    "validate": outcome(lambda: m.validate(o), ok=lambda _: "ok"),
                }
        extra["members" + j] = mem
        rd = None
        if j in insts:
            r = repr(insts[j])
            try:
                rd = enc(ast.literal_eval(r[len(name) + 1:-1])) if r.startswith(name + "(") and r.endswith(")") else None
            except Exception:
                rd = None
        extra["reprdict" + j] = rd
    if "1" in insts and "2" in insts:
        obs["eq"] = bool(insts["1"] == insts["2"])
        extra["ne"] = bool(insts["1"] != insts["2"])
    else:
        obs["eq"] = None
        extra["ne"] = None
    if "1" in insts:
        try:
            obs["xeq"] = bool(insts["1"] == Twin(dec(case["o1"])))
        except Exception as e:
            obs["xeq"] = {"err": canon_exc(e)}
    else:
        obs["xeq"] = None
    for j in ("1", "2"):
        extra["mut" + j] = enc(opts[j]) != case["o" + j]
        # an instance must not change when the caller later writes into the dictionary it came from
        fr = None
        if j in insts:
            try:
                o = dec(case["o" + j])
                a = C(o)
                r0 = repr(a)
                scribble(o)
                b = C(dec(case["o" + j]))
                fr = bool(repr(a) == r0 and a == b)
            except Exception as e:
                fr = "err:" + canon_exc(e)
        extra["frozen" + j] = fr
        # "every plain member [is set] to its constant": editing one instance's plain-member values in place (lists,
        # dicts) changes neither the class nor an instance built afterwards
        iso = None
        if j in insts:
            try:
                # only members the `datasetclass` decorator itself wraps (annotated, declared on the decorated class):
                # an un-annotated member, one inherited from an undecorated base, or one added by an undecorated
                # subclass is an ordinary class attribute, shared by Python itself
                dcsub = case.get("inherit") == "dcsub" and case["base"]
                both = case.get("inherit") == "dcboth" and case["base"]
                hidden = {n for n, _, _ in case["own"]} if (dcsub or both) else set()
                decorated = case["base"] if dcsub else (list(case["own"]) + [m for m in case["base"] if m[0] not in hidden] if both else case["own"])
                if both:
                    hidden = set()
                consts = {n: sp["v"] for n, sp, ann in decorated if sp["k"] == "const" and ann and n not in hidden}
                a = C(dec(case["o" + j]))
                for n in consts:
                    v = getattr(a, n)
                    if isinstance(v, (dict, list, tuple)):
                        scribble(v)
                c = C(dec(case["o" + j]))
                bad = [[n, enc(getattr(c, n)), consts[n]] for n in sorted(consts) if enc(getattr(c, n)) != consts[n]]
                iso = True if not bad else {"member, value in a later instance, declared constant": bad}
            except Exception as e:
                iso = "err:" + canon_exc(e)
        extra["isolated" + j] = iso
    return {"obs": obs, "extra": extra}

for line in sys.stdin:
    line = line.strip()
    if not line:
        continue
    case = json.loads(line)
    try:
        print(json.dumps(run(case)))
    except Exception as e:
        print(json.dumps({"runner_error": type(e).__name__ + ": " + str(e)[:300]}))
'''


def flatten(case):
    """effective members (derived overrides base), as [[attr, spec]]"""
    d = {}
    for n, s, _ in case["base"]:
        d[n] = s
    for n, s, _ in case["own"]:
        d[n] = s
    return [[n, d[n]] for n in d]


def model_line(case):
    return json.dumps({"name": case["name"], "members": flatten(case), "o1": case["o1"], "o2": case["o2"]})


def run_impl(cases):
    inp = "\n".join(json.dumps(c) for c in cases) + "\n"
    r = sh([PY, "-B", "-c", RUNNER], inp=inp, timeout=1800,
           env={"VERIF_REPO_PATH": str(REPO), "PYTHONPATH": str(REPO), "PYTHONHASHSEED": "0"})
    lines = r.stdout.splitlines()
    if r.returncode != 0 or len(lines) != len(cases):
        raise Infra(f"implementation runner failed (rc={r.returncode}, {len(lines)}/{len(cases)} lines): "
                    f"{r.stderr[-1500:]}")
    return [json.loads(l) for l in lines]


def run_model(cases):
    lines = run_driver("drv_dsclass", [model_line(c) for c in cases])
    if len(lines) != len(cases):
        raise Infra(f"driver produced {len(lines)} lines for {len(cases)} cases")
    return [json.loads(l) for l in lines]


# ----------------------------------------------------------------------------- property oracle

def restrict(o, keys):
    """the options restricted to dotted keys — independent of set_dotted_key: top-down pruning"""
    heads = {}
    for k in keys:
        h, _, t = k.partition(".")
        heads.setdefault(h, []).append(t)
    out = {}
    for h, tails in heads.items():
        if not isinstance(o, dict) or h not in o:
            raise KeyError(h)
        out[h] = o[h] if "" in tails else restrict(o[h], tails)
    return out


def class_option_keys(case):
    ks = []
    for _, s in flatten(case):
        if s["k"] == "opt":
            ks.append(s["key"])
        elif s["k"] == "ds":
            ks += [a["key"] for a in s["args"]]
    return ks


def has_index_key(case):
    return any(seg.isdigit() for k in class_option_keys(case) for seg in k.split("."))


def is_err(x):
    return isinstance(x, dict) and "err" in x


def oracle(case, res):
    """problems on the implementation's own observations; only what the property text forbids"""
    if "runner_error" in res:
        return ["runner error: " + res["runner_error"]]
    obs, extra = res["obs"], res["extra"]
    problems = []
    members = flatten(case)
    idx = has_index_key(case)
    restricted = {}
    for j in ("1", "2"):
        o = dec(case["o" + j])
        mem = extra["members" + j]
        vis = [n for n, s in members if s["k"] != "const" and not n.startswith("__")]
        for op in ("keys", "explain"):
            outs = [mem[n][op] for n in vis]
            got = obs[op + j]
            if all(isinstance(x, list) for x in outs):
                want = sorted(set().union(*map(set, outs))) if outs else []
                if got != want:
                    problems.append(f"class {op}(o{j}) = {got} is not the union of the members' {op} = {want}")
            elif not is_err(got):
                problems.append(f"class {op}(o{j}) succeeds ({got}) although a member's {op} fails")
        vouts = [mem[n]["validate"] for n in vis]
        if all(v == "ok" for v in vouts) != (obs["validate" + j] == "ok"):
            problems.append(f"class validate(o{j}) = {obs['validate' + j]} but members' validate = {dict(zip(vis, vouts))}")
        inst = obs["i" + j]
        if not is_err(inst):
            attrs = dict((n, v) for n, v in inst["attrs"])
            for n, s in members:
                if s["k"] == "const":
                    if attrs.get(n) != s["v"]:
                        problems.append(f"plain member {n} of instance {j} is {attrs.get(n)}, constant is {s['v']}")
                elif n.startswith("__"):
                    continue
                else:
                    ev = mem[n]["ev"]
                    if is_err(ev) or attrs.get(n) != ev["ok"]:
                        problems.append(f"attribute {n} of instance {j} is {attrs.get(n)}, member evaluates to {ev}")
        else:
            evs_ok = all(not is_err(mem[n]["ev"]) for n in vis)
            keys_ok = all(isinstance(mem[n]["keys"], list) for n in vis)
            if evs_ok and keys_ok and not idx:
                problems.append(f"cls(o{j}) fails with {inst['err']} although every member evaluates")
        if extra["mut" + j]:
            problems.append(f"the options dictionary o{j} was mutated")
        if extra["frozen" + j] not in (None, True):
            problems.append(f"instance {j} changed (or stopped being equal to a fresh instance from the same options) "
                            f"after the caller wrote into the dictionary it was built from: {extra['frozen' + j]}")
        if extra.get("isolated" + j) not in (None, True):
            problems.append(f"a plain member of a later instance is not its declared constant after an earlier instance's value "
                            f"was edited in place (instances share the class's mutable constant): {extra['isolated' + j]}")
        if not is_err(inst) and not idx and isinstance(obs["keys" + j], list):
            try:
                R = restrict(o, obs["keys" + j])
            except KeyError as e:
                problems.append(f"reported key under {e} is not present in o{j}")
                continue
            restricted[j] = R
            rd = extra["reprdict" + j]
            if rd is None or dec(rd) != R or not inst["repr"].startswith(case["name"] + "("):
                problems.append(f"repr of instance {j} is {inst['repr']!r}, restricted options are {R!r}")
    if "1" in restricted and "2" in restricted and obs["eq"] is not None:
        want = restricted["1"] == restricted["2"]
        if obs["eq"] != want:
            problems.append(f"a == b is {obs['eq']} but restricted options {restricted['1']!r} vs {restricted['2']!r} "
                            f"are {'equal' if want else 'different'}")
        if extra["ne"] != (not obs["eq"]):
            problems.append(f"a != b is {extra['ne']} while a == b is {obs['eq']}")
    return problems


def classify(payload):
    """trigger predicate for candidate known findings of C19"""
    case = payload.get("case")
    if case and has_index_key(case):
        return "C19-INDEX-KEYS"
    return None


# ----------------------------------------------------------------------------- generators

def opt(key, d=None, has_d=False):
    s = {"k": "opt", "key": key}
    if has_d:
        s["d"] = enc(d)
    return s


def const(v):
    return {"k": "const", "v": enc(v)}


def ds(*args):
    return {"k": "ds", "args": [{kk: vv for kk, vv in a.items() if kk != "k"} for a in args]}


def case_(own, o1, o2, base=(), build="type", inherit="plain", name="C"):
    def norm(ms):
        return [[m[0], m[1], (m[2] if len(m) > 2 else True)] for m in ms]
    return {"name": name, "base": norm(base), "own": norm(own), "build": build, "inherit": inherit,
            "o1": enc(o1), "o2": enc(o2)}


def corpus():
    A12 = {"A": {"X": 2, "Y": 3}, "Z": 5}
    cs = []
    # flat key: equal / irrelevant difference / relevant difference
    flat = [("a", opt("A"))]
    cs += [case_(flat, {"A": 2, "Z": 5}, {"A": 2, "Z": 5}), case_(flat, {"A": 2, "Z": 5}, {"A": 2, "Z": 7}),
           case_(flat, {"A": 2}, {"A": 3})]
    # nested key (the repaired defect): only A.X differs / only the irrelevant A.Y differs
    ax = [("x", opt("A.X"))]
    cs += [case_(ax, {"A": {"X": 2}}, {"A": {"X": 3}}), case_(ax, A12, {"A": {"X": 2, "Y": 7}, "Z": 5}),
           case_(ax, A12, copy.deepcopy(A12))]
    # prefix overlap A + A.X: difference in A.Y is relevant through A; key order is not
    ov = [("w", opt("A")), ("x", opt("A.X"))]
    cs += [case_(ov, A12, {"A": {"X": 2, "Y": 7}, "Z": 5}), case_(ov, A12, {"Z": 9, "A": {"Y": 3, "X": 2}}),
           case_(ov, A12, {"A": {"X": 2}}), case_(ov, {"A": {"X": {"P": [2, {"k": 3}]}}}, {"A": {"X": {"P": [2, {"k": 3}]}}})]
    # prefix overlap where the reported key sets differ: {A, A.X} vs {A}
    pre = [("a", opt("A")), ("ax", opt("A.X", 7, True))]
    cs += [case_(pre, {"A": {"X": 2}}, {"A": {}}), case_(pre, {"A": {"X": 7}}, {"A": {}}), case_(pre, {"A": {"X": 7}}, {"A": {"X": 7}})]
    # deep key, section key next to it
    deep = [("a", opt("S.T.U")), ("zed", opt("S.T"))]
    cs += [case_(deep, {"S": {"T": {"U": 2, "V": 3}}}, {"S": {"T": {"V": 3, "U": 2}}}),
           case_([("a", opt("S.T.U"))], {"S": {"T": {"U": 2, "V": 3}}}, {"S": {"T": {"U": 2, "V": 5}, "W": 7}})]
    # defaults: present vs. defaulted give equal attributes but different restricted options
    dfl = [("b", opt("B.Y", 3, True)), ("a", opt("A", None, True))]
    cs += [case_(dfl, {"B": {"Y": 3}}, {}), case_(dfl, {}, {"Z": 2}), case_(dfl, {"A": None}, {"A": None, "B": {}})]
    # constants (annotated, not annotated), dataset member, names sorting unlike their keys
    mix = [("zed", opt("A")), ("a", opt("S.T.U", 7, True)), ("c", const(9)), ("p", const([2, {"k": "s"}]), False),
           ("dd", ds(opt("A.X"), opt("B.Y", 3, True)))]
    cs += [case_(mix, A12, {"A": {"X": 2, "Y": 3}, "S": {"T": {"U": 7}}}), case_(mix, A12, {"A": {"Y": 3, "X": 2}}, build="exec"),
           case_(mix, A12, {"A": {"X": 5, "Y": 3}})]
    # inherited members: plain base class, override, subclass of a dataset class
    base = [("a", opt("A.X")), ("k", const(5)), ("q", opt("Q", "dflt", True))]
    own = [("b", opt("B")), ("k", const(6), False)]
    for inh in ("plain", "dcsub", "dcboth"):
        for how in ("type", "exec"):
            cs += [case_(own, {"A": {"X": 2}, "B": 3}, {"A": {"X": 2, "Y": 9}, "B": 3}, base=base, build=how, inherit=inh),
                   case_(own, {"A": {"X": 2}, "B": 3}, {"A": {"X": 5}, "B": 3}, base=base, build=how, inherit=inh)]
    # one of the two lacks a required key; validate must see members late in dir order
    late = [("a", opt("A")), ("zed", opt("Q")), ("n", opt("B", 2, True))]
    cs += [case_(late, {"A": 2, "Q": 3}, {"A": 2}), case_(late, {"A": 2}, {"Q": 3}), case_(late, {"Q": 2, "A": 3}, {"A": 3, "Q": 2})]
    # a scalar where a section is expected
    cs += [case_(ax, {"A": 5}, {"A": {"X": 5}}), case_([("x", opt("A.X", 2, True))], {"A": "str"}, {"A": [2]}),
           case_([("d", ds(opt("A.X")))], {"A": 5}, {})]
    # `__`-members are left alone
    cs += [case_([("__hid", opt("Q")), ("a", opt("A"))], {"A": 2}, {"A": 2, "Q": 3})]
    # dotted-string order differs from segment order: 'A-B' < 'A.X'
    cs += [case_([("m", opt("A-B")), ("x", opt("A.X"))], {"A": {"X": 2}, "A-B": 3}, {"A-B": 3, "A": {"X": 2}})]
    # no evaluatable member at all / empty options
    cs += [case_([("c", const(2))], {}, {"Z": 3}), case_([], {}, {})]
    # index segments (outside the theorem's side condition: correspondence only)
    cs += [case_([("b", opt("L.0"))], {"L": [2, 3]}, {"L": [2, 5]}), case_([("a", opt("L")), ("b", opt("L.0"))], {"L": [2, 3]}, {"L": [2, 3]}),
           case_([("a", opt("L")), ("b", opt("L.0"))], {"L": "xy"}, {"L": {"0": 2}})]
    return cs


SMALL_OPTS = [{}, {"A": 2}, {"A": {}}, {"A": {"X": 2}}, {"A": {"X": 3}}, {"A": {"X": 2, "Y": 5}}, {"A": {"Y": 5, "X": 2}},
              {"A": {"X": 2}, "B": 7}, {"B": 7}]
SMALL_SPECS = [opt(k) for k in ("A", "A.X", "A.Y", "B")] + [opt(k, 3, True) for k in ("A", "A.X", "A.Y", "B")]


def exhaustive(limit_pairs=None):
    names = ["m", "a"]     # the second member sorts before the first
    classes = [[s] for s in SMALL_SPECS] + [list(p) for p in itertools.combinations(SMALL_SPECS, 2)]
    pairs = list(itertools.product(range(len(SMALL_OPTS)), repeat=2))
    for cl in classes:
        own = [(names[i], s) for i, s in enumerate(cl)]
        for i, j in (pairs if limit_pairs is None else limit_pairs):
            yield case_(own, SMALL_OPTS[i], SMALL_OPTS[j])


KEY_POOL = ["A", "B", "Q", "A.X", "A.Y", "A.X.P", "S.T.U", "S.T", "S", "B.Y", "A-B", "a.x"]
NAME_POOL = ["a", "ax", "b", "zed", "Mid", "_p", "n1", "m", "n", "q", "Zz", "k9", "opt_a", "y"]
SCALARS = [2, 3, 5, 7, -4, 10, True, False, None, "s", "tu", "x y", "Hello"]


def gen_val(rng, depth=0):
    r = rng.random()
    if depth >= 2 or r < 0.6:
        return rng.choice(SCALARS)
    if r < 0.8:
        return [gen_val(rng, depth + 1) for _ in range(rng.randint(0, 3))]
    return {k: gen_val(rng, depth + 1) for k in rng.sample(["X", "Y", "P", "k"], rng.randint(0, 3))}


def set_nested(o, key, v):
    segs = key.split(".")
    for s in segs[:-1]:
        if not isinstance(o.get(s), dict):
            o[s] = {}
        o = o[s]
    o[segs[-1]] = v


def gen_options(rng, keys):
    o = {}
    ks = list(keys)
    rng.shuffle(ks)
    for k in ks:
        if rng.random() < 0.93:
            set_nested(o, k, gen_val(rng))
    for k in rng.sample(["Z", "W", "A.W", "S.T.V", "S.W", "B.W"], rng.randint(0, 3)):
        if rng.random() < 0.8:
            try:
                set_nested(o, k, gen_val(rng))
            except Exception:
                pass
    if rng.random() < 0.06 and ks:     # a scalar where a section is expected
        k = rng.choice(ks)
        if "." in k:
            o[k.split(".")[0]] = rng.choice([5, "str", [2], None])
    return o


def paths_of(o, prefix=""):
    out = []
    for k, v in o.items():
        p = prefix + k
        out.append(p)
        if isinstance(v, dict):
            out += paths_of(v, p + ".")
    return out


def del_nested(o, key):
    segs = key.split(".")
    for s in segs[:-1]:
        o = o[s]
    del o[segs[-1]]


def reorder(rng, o):
    if isinstance(o, dict):
        items = [(k, reorder(rng, v)) for k, v in o.items()]
        rng.shuffle(items)
        return dict(items)
    return o


def perturb(rng, o1, keys):
    """o2 from o1; returns (o2, kind)"""
    o2 = copy.deepcopy(o1)
    kind = rng.choice(["same", "irrelevant", "relevant", "order", "missing", "scalar", "independent", "relevant", "irrelevant"])
    present = [k for k in keys if k in paths_of(o1)]
    if kind == "irrelevant":
        set_nested(o2, rng.choice(["Z", "W", "A.W", "S.T.V"]) if rng.random() < 0.9 else "Z", gen_val(rng))
    elif kind == "relevant" and present:
        k = rng.choice(present)
        set_nested(o2, k, gen_val(rng))
    elif kind == "order":
        o2 = reorder(rng, o2)
    elif kind == "missing" and present:
        del_nested(o2, rng.choice(present))
    elif kind == "scalar" and present:
        k = rng.choice(present)
        o2[k.split(".")[0]] = rng.choice([5, "str", [2]])
    elif kind == "independent":
        o2 = gen_options(rng, keys)
    return o2, kind


def gen_member(rng):
    r = rng.random()
    if r < 0.55:
        k = rng.choice(KEY_POOL)
        if rng.random() < 0.35:
            return opt(k, gen_val(rng, 1), True)
        return opt(k)
    if r < 0.75:
        c = const(gen_val(rng))
        if isinstance(c["v"], dict) and "l" in c["v"] and rng.random() < 0.4:
            c["tup"] = True
        return c
    args = []
    for _ in range(rng.randint(0, 3)):
        k = rng.choice(KEY_POOL)
        args.append(opt(k, gen_val(rng, 1), True) if rng.random() < 0.35 else opt(k))
    return ds(*args)


def gen_case(rng, n):
    names = rng.sample(NAME_POOL, rng.randint(1, 5))
    build = rng.choice(["type", "type", "exec"])
    members = [(nm, gen_member(rng), rng.random() < 0.7) for nm in names]
    if build == "type" and rng.random() < 0.1:
        members.append(("__hid", opt(rng.choice(KEY_POOL)), False))
    nb = rng.choice([0, 0, 1, 2]) if len(members) > 1 else 0
    base, own = members[:nb], members[nb:]
    if base and rng.random() < 0.4:        # an override of an inherited member
        own.append((base[0][0], gen_member(rng), rng.random() < 0.5))
    c = case_(own, {}, {}, base=base, build=build, inherit=rng.choice(["plain", "dcsub", "dcboth"]), name="C%d" % (n % 7))
    keys = class_option_keys(c)
    o1 = gen_options(rng, keys)
    o2, kind = perturb(rng, o1, keys)
    c["o1"], c["o2"] = enc(o1), enc(o2)
    c["kind"] = kind
    return c


# ----------------------------------------------------------------------------- shrinking

def shrink_candidates(case):
    out = []
    for part in ("own", "base"):
        for i in range(len(case[part])):
            c = copy.deepcopy(case)
            del c[part][i]
            out.append(c)
    if case.get("build") != "type":
        c = copy.deepcopy(case); c["build"] = "type"; out.append(c)
    if case.get("inherit") != "plain":
        c = copy.deepcopy(case); c["inherit"] = "plain"; out.append(c)
    if case["base"]:
        c = copy.deepcopy(case)
        names = {m[0] for m in c["own"]}
        c["own"] = [m for m in c["base"] if m[0] not in names] + c["own"]
        c["base"] = []
        out.append(c)
    for part in ("own", "base"):
        for i, m in enumerate(case[part]):
            if m[1]["k"] == "opt" and "d" in m[1]:
                c = copy.deepcopy(case); del c[part][i][1]["d"]; out.append(c)
            if m[1]["k"] == "ds":
                for a in range(len(m[1]["args"])):
                    c = copy.deepcopy(case); del c[part][i][1]["args"][a]; out.append(c)
    for side in ("o1", "o2"):
        o = dec(case[side])
        for p in paths_of(o):
            o2 = copy.deepcopy(o)
            del_nested(o2, p)
            c = copy.deepcopy(case); c[side] = enc(o2); out.append(c)
    if case["o1"] != case["o2"]:
        c = copy.deepcopy(case); c["o2"] = c["o1"]; out.append(c)
        c = copy.deepcopy(case); c["o1"] = c["o2"]; out.append(c)
    return out


def shrink(case, failing, rounds=8):
    """greedy: `failing(list_of_cases) -> list[bool]`"""
    for _ in range(rounds):
        cands = shrink_candidates(case)
        if not cands:
            break
        flags = failing(cands)
        nxt = next((c for c, f in zip(cands, flags) if f), None)
        if nxt is None:
            break
        case = nxt
    return case


def corr_failing(cases):
    impl, model = run_impl(cases), run_model(cases)
    return ["runner_error" not in i and "driver_error" not in m and i["obs"] != m for i, m in zip(impl, model)]


def oracle_failing(cases):
    impl = run_impl(cases)
    return [bool(oracle(c, i)) for c, i in zip(cases, impl)]


# ----------------------------------------------------------------------------- explore

def nontrivial(case, res):
    """both instances were built and the class reports at least one nested (dotted) key"""
    obs = res.get("obs", {})
    if is_err(obs.get("i1", {"err": 1})) or is_err(obs.get("i2", {"err": 1})):
        return False
    ks = [k for j in ("1", "2") if isinstance(obs.get("keys" + j), list) for k in obs["keys" + j]]
    return any("." in k for k in ks)


def make_cases(ctx):
    rng = random.Random(ctx.seed)
    cases = corpus()
    n_corpus = len(cases)
    if ctx.tier == "thorough":
        cases += list(exhaustive())
        n_random = 12000
    else:
        pairs = list(itertools.product(range(len(SMALL_OPTS)), repeat=2))
        sub = rng.sample(pairs, 27)
        cases += list(exhaustive(sub))
        n_random = 1200
    n_exh = len(cases) - n_corpus
    for n in range(n_random):
        cases.append(gen_case(rng, n))
    return cases, n_corpus, n_exh, n_random


def known_ids():
    return {e.get("id") for e in known_findings().get("known", []) if isinstance(e, dict)}


def explore(ctx: Ctx) -> Exploration:
    cases, n_corpus, n_exh, n_random = make_cases(ctx)
    impl = run_impl(cases)
    model = run_model(cases)
    findings = []
    corr, orc = [], []
    dist = Counter()
    errs = Counter()
    distinct = set()
    candidates = []
    for c, i, m in zip(cases, impl, model):
        if "runner_error" in i:
            findings.append(Finding("translator", "implementation runner could not build the case: " + i["runner_error"],
                                    {"case": c}))
            continue
        if "driver_error" in m:
            findings.append(Finding("translator", "driver rejected the case: " + m["driver_error"], {"case": c}))
            continue
        if i["obs"] != m:
            corr.append((c, i, m))
        probs = oracle(c, i)
        if probs:
            orc.append((c, i, probs))
        # statistics
        for _, s in flatten(c):
            dist["member:" + s["k"] + (":default" if "d" in s else "")] += 1
        dist["build:" + c["build"]] += 1
        dist["inherit:" + (c["inherit"] if c["base"] else "none")] += 1
        dist["pair:" + c.get("kind", "fixed")] += 1
        dist["members:%d" % len(flatten(c))] += 1
        dist["eq:" + str(i["obs"]["eq"])] += 1
        for f in ("i1", "i2", "keys1", "validate1", "explain1"):
            if is_err(i["obs"][f]):
                errs[f + ":" + i["obs"][f]["err"].split(":")[0]] += 1
        if nontrivial(c, i):
            distinct.add(json.dumps([flatten(c), c["o1"], c["o2"]], sort_keys=True))
        # index keys + prefix: outside the theorem's side condition (candidate finding, see classify)
        if has_index_key(c) and any(is_err(i["obs"]["i" + j]) and i["obs"]["i" + j]["err"] == "RawTypeError"
                                    and all(not is_err(v["ev"]) for v in i["extra"]["members" + j].values())
                                    for j in ("1", "2")):
            candidates.append(c)
    for c, i, m in corr[:3]:
        small = shrink(c, corr_failing)
        si, sm = run_impl([small])[0], run_model([small])[0]
        diff = sorted(k for k in sm if si["obs"].get(k) != sm.get(k))
        findings.append(Finding("correspondence", f"model and implementation disagree on {diff}",
                                {"case": small, "impl": si.get("obs"), "model": sm, "original_case": c}))
    for c, i, m in corr[3:20]:
        diff = sorted(k for k in m if i["obs"].get(k) != m.get(k))
        findings.append(Finding("correspondence", f"model and implementation disagree on {diff}",
                                {"case": c, "impl": i["obs"], "model": m}))
    for n, (c, i, probs) in enumerate(orc[:20]):
        small, si, sp = c, i, probs
        if n < 3:
            small = shrink(c, oracle_failing)
            si = run_impl([small])[0]
            sp = oracle(small, si) or probs
        findings.append(Finding("failing-input", sp[0], {"case": small, "impl": si.get("obs"), "extra": si.get("extra"),
                                                          "problems": sp, "original_case": c}))
    if candidates and "C19-INDEX-KEYS" in known_ids():
        findings.append(Finding("failing-input", "members on `L` and `L.0`: cls(o) raises TypeError from set_dotted_key",
                                {"case": candidates[0]}, known_id="C19-INDEX-KEYS"))
    samples = []
    for c, i in list(zip(cases, impl))[3:8]:
        samples.append({"members": flatten(c), "o1": dec(c["o1"]), "o2": dec(c["o2"]), "eq": i["obs"]["eq"],
                        "repr1": None if is_err(i["obs"]["i1"]) else i["obs"]["i1"]["repr"]})
    cov = {
        "evaluations": len(cases),
        "programs": len({json.dumps([flatten(c), c["build"], c["inherit"], bool(c["base"])], sort_keys=True) for c in cases}),
        "distinct_nontrivial": len(distinct),
        "rule": "distinct (members, o1, o2) where both instances were built and a nested (dotted) key is reported",
        "disagreements_checked": len(cases),
        "correspondence_disagreements": len(corr),
        "oracle_failures": len(orc),
        "corpus": n_corpus, "exhaustive_cases": n_exh, "random": n_random,
        "out_of_scope_candidates": len(candidates),
        "samples": samples,
        "distribution": {"generated": dict(sorted(dist.items())), "errors_hit": dict(sorted(errs.items()))},
    }
    return Exploration(findings, cov)


def failing_input_search(ctx, why):
    """larger random budget, oracle only"""
    rng = random.Random(ctx.seed + 7919)
    cases = [gen_case(rng, n) for n in range(6000)]
    impl = run_impl(cases)
    out = []
    for c, i in zip(cases, impl):
        probs = oracle(c, i)
        if probs:
            small = shrink(c, oracle_failing)
            si = run_impl([small])[0]
            out.append(Finding("failing-input", (oracle(small, si) or probs)[0],
                               {"case": small, "impl": si.get("obs"), "extra": si.get("extra"), "original_case": c}))
            if len(out) >= 3:
                break
    return out


def replay(ctx, payload) -> int:
    case = payload["case"]
    err = lean_build(["drv_dsclass"])
    if err:
        print("cannot build drv_dsclass:", err[-500:])
        return 2
    i, m = run_impl([case])[0], run_model([case])[0]
    print("case     :", json.dumps(case))
    print("members  :", flatten(case))
    print("o1       :", dec(case["o1"]))
    print("o2       :", dec(case["o2"]))
    print("impl     :", json.dumps(i.get("obs"), sort_keys=True))
    print("model    :", json.dumps(m, sort_keys=True))
    probs = oracle(case, i)
    agree = i.get("obs") == m
    for p in probs:
        print("PROPERTY :", p)
    if not agree:
        print("DIFFERS  :", sorted(k for k in m if i.get("obs", {}).get(k) != m.get(k)))
    cid = classify(payload)
    if cid:
        print("classify :", cid)
    if probs or not agree:
        print("verdict  : still failing")
        return 1
    print("verdict  : passes")
    return 0


if __name__ == "__main__":
    sys.exit(main_check(SPEC, explore, failing_input_search, replay))

"""C07 -- overload and interface dispatch select exactly the registered implementation.

Lean side : lean/LabreaModel/InterfaceSM.lean (+ InterfaceLemmas.lean), lean/LabreaProps/C07.lean,
            driver lean/DrvIface.lean (drv_iface).
This file : generator of histories, code generator that builds every history through labrea's
            public API (decorators, class statements) in a subprocess, comparison with the model,
            and the model-independent property oracle.

A *case* is a JSON object {"impls": [...], "disps": [...], "ops": [...]} in the "py-level"
operation language below; `to_model` lowers it to the driver's language (see DrvIface.lean).

py-level ops
  ["new", d, disp, dflt_impl|None, cb|None]          + optional sixth element: the id of a row of the spelling table
  ["reg", d, alias, i]
  ["ovl", [[d, [alias...]], ...], i]                 targets in application order (innermost first)
  ["setd", d, disp]
  ["iface", I, disp, [[name, d, kind, dflt_impl|None, cb|None], ...]]
        kind: "ann" annotation only | "abs" @abstractdataset | "fn" plain function default
              | "ds" @dataset(callback=...) default | "val" attribute value default | "ext" existing d
  ["impl", [I...], [alias...], [[name, i], ...]]
  ["eval", d, opts]

dispatch datasets: case["disps"][n] = {"key": Q, "map": [[from, to]...]}  body MAP.get(x, x); with
  "exc": <row id of the exception table>, "form": <XFORMS> the dispatch expression instead *fails* when Q
  is absent -- with that exception class, raised by user code inside the expression -- where the plain one
  fails with KeyNotFoundError.  The model knows only "the dispatch evaluation failed" (DispSpec.val on an
  absent key), so such a case lowers to the same model case and the model's error name is renamed.

Directed family "the dispatch evaluation fails" (every run, both tiers): the exception table `exc_table()`
(every builtin `Exception` subclass, exceptions produced by genuinely failing code -- unbounded recursion
inside a lowered recursion limit, 1 // 0, [][0] ... --, user-defined classes, labrea's own classes raised by
user code) is iterated (a) as model-compared histories (dataset with default / abstract / re-dispatched,
interface members with and without default) and (b) as *direct* programs (`{"x": {...}}` cases, python-level
oracle only) for the positions the model's language has no word for: Overloaded, switch, coalesce around an
abstract dataset, the default of an outer switch, the dispatch of an outer switch, a dataset argument, an
implementation registered on another dataset -- each over the forms a computed dispatch expression can take
(dataset, nocache, lift, >>, apply, bind, a dataset over a failing dataset, a >> chain, a pipeline step).
Oracle: default implementation when there is one, otherwise an EvaluationError (never a bare exception).

Directed family "the spelling of a dataset" (every run, both tiers): `spelling_table()` lists the public ways of
building one dataset from the factories -- dataset(f, **kw), dataset(**kw)(f), dataset(None, **kw)(f), @dataset then
set_dispatch / set_cache, .nocache, .where, .update, .wrap, abstractdataset in the same forms, factories configured in
several steps, a factory bound to a name and reused, every keyword also given as None / empty, `abstract` given
explicitly on the factory that agrees and on the one that does not, a later explicit value replacing an earlier one.
A spelling does not change what an operation means: the model is told ["new", d, disp, dflt, cb] and `spell_emit`
folds the steps by "the last explicit value wins, None or omitted inherits", refusing a row whose folded meaning is
not the operation's.  Every row is iterated as a directed history (a dataset with a default implementation and an
abstract one built by it: registered / unregistered / undeterminable dispatch value, before and after a late
registration), and every dataset of the exhaustive and random streams (also the @dataset / @abstractdataset members
of interfaces and the dispatching datasets used as implementations) gets a row by its number (`annotate`: no random
stream consumed, written into the case so that a replay rebuilds it).  Oracle: the existing one, plus `is_abstract` /
`default` as declared and the cache that was given (DECL), and the other datasets of a reused factory (DECOY).
Keyword combinations that labrea does not treat by that reading (options={} / default_options={} on a factory that
has some, dispatch='') are NOT in the violation oracle: `run_probe` records what they do in the evidence.

Directed family "an Option-based dispatch can or cannot be determined" (every run, both tiers): case["disps"][n] may
carry "ox", a dispatch EXPRESSION built from Options (grammar above `ox_ref`): Option with / without default,
default_factory, type=, a domain given as a container / predicate / Evaluatable / labrea.functions helper, the string
form and dotted keys, members of an Option.namespace, WithOptions / WithDefaultOptions / Dataset.with_options pinning
the key, Option >> f, case, switch, coalesce over such Options.  `ox_ref` computes from the documented reading of the
expression -- without labrea -- the dispatch value under an options dictionary, or that there is none (and why), and
the option keys the value was read from.  The model knows nothing of Options: `ox_lowering` hands it, per evaluation,
a token standing for that reading under a private key @D<n> (a dispatch dataset whose MAP sends the token to the
value; no token when the value cannot be determined), `ox_fix_line` says the model's observations in the
implementation's terms again (the private key of a fingerprint replaced by the keys of the reading, "@D<n> is missing"
by the reading's root cause).  `oform_rows` lists the rows (per way: key absent / present, default inside / outside /
none, every kind of domain, None and falsy values, templated values, ...), `oform_case` the history of a row: a
dataset with a default implementation and a callback, an abstract one, an interface with an abstract member, a member
with a default that implementations override and one they do not, implementations registered under exactly the values
in play (the out-of-domain default among them).  Oracle: the model correspondence and the property's own reading
(determinable and registered -> that implementation; determinable and unregistered, or undeterminable -> the default
implementation, else an EvaluationError).  Every dictionary of a history carries its own value of an option that every
implementation reads, so that two dictionaries never share a fingerprint: known finding F19 (the keys read by a
dispatch that then fails are not in the fingerprint) would otherwise return the entry stored under {} for
{K: <outside the domain>}; that, and Coalesce.keys() naming a member that validates but cannot be evaluated (rows
marked "nofp": compared without fingerprints), are recorded by `run_probe("option-dispatch")` in the evidence and are
NOT in the violation oracle.
"""
import sys
from pathlib import Path

sys.path.insert(0, str(Path(__file__).resolve().parent.parent))
from common import *  # noqa: F401,F403  PropSpec, Ctx, Exploration, Finding, main_check, run_driver, REPO, PY

import json
import random
import re
import subprocess

SPEC = PropSpec(
    pid="C07",
    lean_modules=["LabreaProps.C07"],
    model_files=["LabreaModel/InterfaceSM.lean", "LabreaModel/InterfaceLemmas.lean"],
    drivers=["drv_iface"],
    trusted_base=[
        "correspondence InterfaceSM <-> labrea on generated histories (value / failure class, hit-or-miss, "
        "fingerprint of every evaluation; outcome of every definition)",
        "harness code generator and runner (harness/props/C07.py)",
        "the reading of the factory keywords used to tell the model what a spelled dataset is: the last explicit "
        "value wins, a keyword omitted or None inherits the factory's (spell_emit)",
        "json.dumps injective on the float-free option values used",
        "the reading of Option-based dispatch expressions (ox_ref: Option / default / default_factory / domain / "
        "templates / namespace / WithOptions / >> / case / switch / coalesce as documented), through which the model "
        "is told the dispatch value of an evaluation or that there is none",
    ],
    assumptions=[
        "implementations, dispatch datasets and callbacks are deterministic functions of the options "
        "(model parameter Env); callbacks are plain functions without option keys",
        "dispatch values are hashable scalars or tuples of scalars (an unhashable dispatch value raises "
        "TypeError from `key in lookup` regardless of the default; not generated)",
        "no with_options/with_default_options derivatives (the only other holders of a dataset's "
        "Overloaded object and cache), no effects, MemoryCache only; the factory keywords options / "
        "default_options / effects / defaults only with their empty or None value (defaults / where also with the "
        "parameter defaults of the function itself)",
        "no_cross_dispatch needs an unchanged, key-deterministic dispatch expression: set_dispatch on a "
        "dataset that already holds entries is known finding F24 (exercised in a separate stream)",
        "interface_consistent assumes members are not re-dispatched behind the interface's back "
        "(no set_dispatch on a member, a dataset is a member of one interface)",
        "Option-dispatch family: two option dictionaries of one history never share a fingerprint (each carries its "
        "own value of an option every implementation reads): the keys read by a dispatch that then FAILS are not in "
        "the fingerprint (known finding F19 of C01 / C03; recorded in the evidence, not in the violation oracle), "
        "nor are those of a coalesce member chosen after one that validates but cannot be evaluated",
        "a dispatch expression that cannot be evaluated fails with an `Exception` subclass (the whole builtin "
        "hierarchy, user classes, labrea's own: the exception table); BaseException-only classes "
        "(KeyboardInterrupt, SystemExit, GeneratorExit) propagate by design and are not generated",
    ],
)

F24 = "F24"

# --------------------------------------------------------------------------------------------
# canonical printing (must match DrvIface.lean showV / showFp / showObs)


class _Missing:
    pass


def canon(v):
    if v is None:
        return "null"
    if v is True:
        return "true"
    if v is False:
        return "false"
    if isinstance(v, int):
        return str(v)
    if isinstance(v, str):
        return '"' + v + '"'
    if isinstance(v, list):
        return "[" + ",".join(canon(x) for x in v) + "]"
    if isinstance(v, tuple):
        return "(" + ",".join(canon(x) for x in v) + ")"
    if type(v).__name__ == "_Missing" or repr(v) == "MISSING":
        return "MISSING"
    return "?" + type(v).__name__


def canon_fp(fp_bytes):
    try:
        items = json.loads(fp_bytes)
        if not (isinstance(items, list) and all(isinstance(it, dict) for it in items)):
            raise ValueError
    except ValueError:
        # not the `[{key: value}, ...]` list the model computes: reported as it is (and so as a disagreement)
        return "!unexpected-fingerprint:" + repr(fp_bytes)[:200]
    out = []
    for it in items:
        for k, v in it.items():
            out.append(k + "=" + canon(v))
    return "[" + ",".join(out) + "]"


# --------------------------------------------------------------------------------------------
# JSON encodings shared with the driver


def enc(v):
    """python value -> JSON-able value (tuples as {"t": [...]})"""
    if isinstance(v, tuple):
        return {"t": [enc(x) for x in v]}
    if isinstance(v, list):
        return [enc(x) for x in v]
    return v


def dec(j):
    if isinstance(j, dict) and "t" in j:
        return tuple(dec(x) for x in j["t"])
    if isinstance(j, list):
        return [dec(x) for x in j]
    return j


def to_model(case):
    """lower a py-level case to the driver's language; returns (model_case, obs_map) where
    obs_map[k] = number of model observations produced by py-level op k"""
    ops = []
    for op in case["ops"]:
        if op[0] == "iface":
            members = []
            for name, d, kind, dflt, cb in (m[:5] for m in op[3]):
                if kind != "ext":
                    ops.append(["new", d, ["missing"], dflt, cb])
            # annotation-only members are set on the class after its body: they come last in
            # the interface's __dict__, which is the order Implementation.__init__ walks
            for name, d, kind, dflt, cb in (m[:5] for m in sorted(op[3], key=lambda m: m[2] == "ann")):
                members.append([name, d])
            ops.append(["iface", op[1], op[2], members])
        elif op[0] == "new":
            ops.append(op[:5])        # (the spelling of the dataset is not the model's business)
        else:
            ops.append(op)
    # a failing dispatch expression ("exc") is, for the model, a dispatch dataset whose key is absent
    disps = [{"key": sp["key"], "map": sp["map"]} for sp in case["disps"]]
    impls = [{k_: v for k_, v in sp.items() if k_ != "sp"} for sp in case["impls"]]
    if has_ox(case):
        # an Option-based dispatch expression ("ox") is a dispatch dataset over a private key that carries, per
        # evaluation, the dispatch value the reference reading determined -- or nothing (see ox_lowering)
        disps, mopts, _ = ox_lowering(case)
        evs = iter(k for k, op in enumerate(case["ops"]) if op[0] == "eval")
        ops = [["eval", op[1], mopts[next(evs)]] if op[0] == "eval" else op for op in ops]
    return {"impls": impls, "disps": disps, "ops": ops}


# --------------------------------------------------------------------------------------------
# the exception table: every way user code inside a dispatch expression can fail with an `Exception`


def exc_table():
    """rows {"id", "pre": module-level lines, "body": lines of a function that always fails,
    "errname": what ERRNAME reports for the root cause}.  "@SRC@" in a body line stands for the
    dispatch expression itself.  BaseException-only classes (KeyboardInterrupt, SystemExit,
    GeneratorExit, BaseExceptionGroup) are not `Exception`s, propagate by design and are not listed."""
    import builtins
    rows = []

    def row(id_, body, errname=None, pre=()):
        rows.append({"id": id_, "pre": list(pre), "body": list(body), "errname": errname or id_.split("/")[0]})

    # 1. every builtin Exception subclass, raised directly (constructor arguments where "x" will not do)
    ctor = {
        "UnicodeDecodeError": 'UnicodeDecodeError("utf-8", b"\\xff", 0, 1, "invalid start byte")',
        "UnicodeEncodeError": 'UnicodeEncodeError("ascii", "\\xff", 0, 1, "ordinal not in range(128)")',
        "UnicodeTranslateError": 'UnicodeTranslateError("\\xff", 0, 1, "character maps to <undefined>")',
        "ExceptionGroup": 'ExceptionGroup("several", [ValueError("a"), KeyError("b"), RecursionError("c")])',
        "OSError": 'OSError(5, "Input/output error")',
        "FileNotFoundError": 'FileNotFoundError(2, "No such file or directory", "/nonexistent/c07")',
        "TimeoutError": 'TimeoutError(110, "Connection timed out")',
        "ImportError": 'ImportError("cannot import name", name="nope", path="/nonexistent/c07.py")',
        "SyntaxError": 'SyntaxError("invalid syntax", ("<c07>", 1, 2, "a b\\n"))',
        "StopIteration": 'StopIteration(("carried", "value"))',
        "KeyError": 'KeyError(("tuple", "key"))',
        "MemoryError": "MemoryError()",
        "AssertionError": "AssertionError()",
    }
    for n in sorted(dir(builtins)):
        c = getattr(builtins, n)
        if isinstance(c, type) and issubclass(c, Exception) and c.__name__ == n:   # (skips the OSError aliases)
            row(n, ["raise " + ctor.get(n, '%s("x")' % n)])
    # 2. produced by code that genuinely fails
    unb = ["def _unbounded(n):", "    return _unbounded(n + 1) + 1"]
    row("RecursionError/unbounded-recursion-lowered-limit",
        ["_old = sys.getrecursionlimit()", "sys.setrecursionlimit(DEPTH() + 64)", "try:",
         "    return _unbounded(0)", "finally:", "    sys.setrecursionlimit(_old)"], pre=unb)
    row("RecursionError/unbounded-recursion", ["return _unbounded(0)"], pre=unb)
    row("ZeroDivisionError/1//0", ["return 1 // 0"])
    row("OverflowError/math.exp", ["import math", "return math.exp(100000)"])
    row("IndexError/[][0]", ["return [][0]"])
    row("KeyError/{}[k]", ["return {}['k']"])
    row("AttributeError/None.attr", ["return None.no_such_attribute"])
    row("TypeError/1+str", ["return 1 + 'a'"])
    row("ValueError/int(str)", ["return int('a')"])
    row("NameError/undefined-name", ["return _c07_undefined_name_"])
    row("UnboundLocalError/local", ["if sys is None:", "    loc = 1", "return loc"])
    row("FileNotFoundError/open", ["return open('/nonexistent/c07/file').read()"])
    row("UnicodeDecodeError/bytes.decode", ["return b'\\xff'.decode('utf-8')"])
    row("ModuleNotFoundError/import", ["import _c07_no_such_module_", "return 0"])
    row("AssertionError/assert", ["assert sys is None, 'never'", "return 0"])
    row("StopIteration/next", ["return next(iter(()))"])
    row("LookupError/codecs.lookup", ["import codecs", "return codecs.lookup('c07-no-such-codec')"])
    # (python chains the RuntimeError to the StopIteration: that is the root cause ERRNAME reports)
    row("RuntimeError/generator-raised-StopIteration", ["return list(_gen_stop())"], "StopIteration",
        pre=["def _gen_stop():", "    yield 1", "    raise StopIteration"])
    # 3. user-defined classes
    row("_UserError", ["raise _UserError(3, detail='d')"],
        pre=["class _UserError(Exception):", "    def __init__(self, code, *, detail):",
             "        super().__init__()", "        self.code, self.detail = code, detail",
             "    def __str__(self):", "        return 'user error %d' % self.code"])
    row("_UserRecursionError", ["raise _UserRecursionError('x')"],
        pre=["class _UserRecursionError(RecursionError):", "    pass"])
    row("_UserMemoryError", ["raise _UserMemoryError()"], pre=["class _UserMemoryError(MemoryError):", "    pass"])
    row("_UserGroup", ["raise _UserGroup('g', [OSError(5, 'io'), _UserGroup('h', [MemoryError()])])"],
        pre=["class _UserGroup(ExceptionGroup):", "    pass"])
    # 4. labrea's own classes raised by user code (a foreign source / the dispatch expression as source)
    row("labrea.EvaluationError", ["raise EvaluationError('user', Value(0))"], "EvaluationError")
    row("labrea.EvaluationError/own-source", ["raise EvaluationError('user', @SRC@)"], "EvaluationError")
    row("labrea.EvaluationError/from-RecursionError",
        ["raise EvaluationError('user', Value(0)) from RecursionError('inner')"], "RecursionError")
    row("labrea.KeyNotFoundError", ["raise KeyNotFoundError('ZK', Value(0))"], "KeyNotFoundError:ZK")
    row("labrea.KeyNotFoundError/own-source", ["raise KeyNotFoundError('ZK', @SRC@)"], "KeyNotFoundError:ZK")
    row("labrea.InsufficientInformationError", ["raise InsufficientInformationError('user', Value(0))"],
        "InsufficientInformationError")
    row("labrea.SwitchError", ["raise SwitchError(Value(0), 'v', {'a': 1})"], "SwitchError")
    row("labrea.CaseWhenError", ["raise CaseWhenError(Value(0), 'v')"], "CaseWhenError")
    row("labrea.EvaluationError/user-subclass", ["raise _UserEvaluationError()"], "_UserEvaluationError",
        pre=["class _UserEvaluationError(EvaluationError):", "    def __init__(self):",
             "        super().__init__('user', Value(None))"])
    return rows


EXC_ROWS = exc_table()
EXC = {r["id"]: r for r in EXC_ROWS}
assert len(EXC) == len(EXC_ROWS)

# the forms a computed dispatch expression takes
XFORMS = ["dataset", "nocache", "lift", "pipe", "apply", "bind", "bind-lazy", "deep", "chain", "step"]


def xdisp_lines(name, n, key, mp, row, form, trig="absent"):
    """lines defining `name`: a dispatch expression over option `key` that evaluates to MAP.get(x, x) and
    fails -- with the exception of `row`, inside user code -- when triggered (key absent / key == 'boom')"""
    opt = "Option(%r, None)" % key if trig == "absent" else "Option(%r)" % key
    cond = "x is None" if trig == "absent" else "x == 'boom'"
    ls = ["def _boom%d():" % n] + ["    " + b.replace("@SRC@", "_SRC[%d]" % n) for b in row["body"]]
    ls += ["def _g%d(x):" % n, "    if %s:" % cond, "        return _boom%d()" % n, "    return %s.get(x, x)" % mp]
    if form == "dataset":
        ls += ["@dataset", "def %s(x=%s):" % (name, opt), "    return _g%d(x)" % n]
    elif form == "nocache":
        ls += ["@dataset.nocache", "def %s(x=%s):" % (name, opt), "    return _g%d(x)" % n]
    elif form == "lift":
        ls += ["def _h%d(x=%s):" % (n, opt), "    return _g%d(x)" % n, "%s = FunctionApplication.lift(_h%d)" % (name, n)]
    elif form == "pipe":
        ls += ["%s = %s >> _g%d" % (name, opt, n)]
    elif form == "apply":
        ls += ["%s = %s.apply(Value(_g%d))" % (name, opt, n)]
    elif form == "bind":
        ls += ["%s = %s.bind(lambda x: Value(_g%d(x)))" % (name, opt, n)]
    elif form == "bind-lazy":
        ls += ["%s = %s.bind(lambda x: Value(x) >> _g%d)" % (name, opt, n)]
    elif form == "deep":
        ls += ["@dataset", "def _inner%d(x=%s):" % (n, opt), "    return _g%d(x)" % n,
               "@dataset", "def %s(y=_inner%d):" % (name, n), "    return y"]
    elif form == "chain":
        ls += ["%s = %s >> _g%d >> (lambda y: y)" % (name, opt, n)]
    elif form == "step":
        ls += ["@pipeline_step", "def _step%d(x, unused=Option('UNUSED', 0)):" % n, "    return _g%d(x)" % n,
               "%s = %s >> _step%d" % (name, opt, n)]
    else:
        raise ValueError(form)
    ls += ["_SRC[%d] = %s" % (n, name)]
    return ls


# --------------------------------------------------------------------------------------------
# code generation: one python program per case, public API only


def py(v):
    """python source of a JSON-encoded value"""
    return repr(dec(v))


def disp_src(disp, as_evaluatable=False):
    k = disp[0]
    if k == "key":
        return "Option(%r)" % disp[1] if as_evaluatable else repr(disp[1])
    if k == "keyd":
        return "Option(%r, %s)" % (disp[1], py(disp[2]))
    if k == "ds":
        return "dd%d" % disp[1]
    raise ValueError(disp)


def leaf_params(leaf):
    ps = []
    for n, (key, d) in enumerate(leaf["reads"]):
        if d is None:
            ps.append("a%d=Option(%r)" % (n, key))
        else:
            ps.append("a%d=Option(%r, %s)" % (n, key, py(d["d"])))
    return ", ".join(ps)


def leaf_def(name, leaf, decorators, ind):
    args = "".join(", a%d" % n for n in range(len(leaf["reads"])))
    lines = [ind + "@" + dec_ for dec_ in decorators]
    lines.append(ind + "def %s(%s):" % (name, leaf_params(leaf)))
    lines.append(ind + "    COUNT[%r] = COUNT.get(%r, 0) + 1" % (leaf["tag"], leaf["tag"]))
    lines.append(ind + "    return (%r%s,)" % (leaf["tag"], args) if args else ind + "    return (%r,)" % leaf["tag"])
    return lines


# --------------------------------------------------------------------------------------------
# the spelling table: every public way of building ONE dataset out of the dataset factories
#
# A "new" operation may carry a sixth element, the id of a spelling; the dataset is then built that way.  The
# meaning of the operation does not change (the model is told ["new", d, disp, dflt, cb] whatever the spelling):
# for every keyword the LAST EXPLICIT value wins, a keyword that is omitted or given as None inherits the
# factory's.  `spell_emit` folds the steps of a spelling by exactly that rule and refuses a spelling whose
# folded meaning is not the target of the operation, so the table cannot drift from what it claims.
#
# spelling = {"id", "base", "steps", "final", "post", "reuse"}
#   base  : "same" | "opp" (+ ".nocache"): `dataset` for a dataset with a default implementation and
#           `abstractdataset` for an abstract one ("same"), or the other way round ("opp": needs an explicit A=)
#   steps : keyword calls applied to the base, left to right; "" is "no call at all", "-" an empty call `()`;
#           first token ".nocache" / ".where" / ".update" for those members, "None" for `factory(None, ...)`
#   tokens: D dispatch (as the py-level op spells it: key string / Option / dataset)   Do dispatch as an Evaluatable
#           D? a wrong dispatch (to be replaced later)   D0 dispatch=None
#           C cache=LogCache(name)   Cf cache=<callable returning it>   C? a wrong cache   C0 cache=None
#           B callback   B? a wrong callback   B0 callback=None
#           A= abstract=<what the operation says>   A! abstract=<the opposite>   A0 abstract=None
#           O0 options={}  O00 options=None  P0 default_options={}  P00 =None  E0 effects=[]  E00 =None
#           F0 defaults={}  F00 defaults=None   W defaults=<the parameter defaults of the function, which then has none>
#   final : "deco" decorator | "call" factory(f) | "with" factory(f, <last step>) | "wrap" factory.wrap(f)
#   post  : "setd" set_dispatch afterwards | "setc" set_cache(cache) | "setcf" set_cache(callable)
#   reuse : the factory is bound to a name and also makes one more dataset before and one after (own caches),
#           which must come out as the factory's own keywords say


class Inapplicable(Exception):
    pass


def _sp(id_, base, steps, final="deco", post=(), reuse=False):
    return {"id": id_, "base": base, "steps": list(steps), "final": final, "post": list(post), "reuse": reuse}


def spelling_table():
    t = []
    ALL = "D C B"
    # one call, the three syntaxes; the definition first, last, or after an explicit None
    t.append(_sp("@F(kw)", "same", [ALL]))
    t.append(_sp("F(f, kw)", "same", [ALL], "with"))
    t.append(_sp("F(kw)(f)", "same", [ALL], "call"))
    t.append(_sp("F(None, kw)(f)", "same", ["None " + ALL], "call"))
    t.append(_sp("F()(kw)(f)", "same", ["-", ALL], "call"))
    t.append(_sp("F(kw).wrap(f)", "same", [ALL], "wrap"))
    t.append(_sp("F.update(kw)(f)", "same", [".update " + ALL], "call"))
    t.append(_sp("@F(kw, dispatch as Evaluatable)", "same", ["Do C B"]))
    t.append(_sp("@F(kw, cache as callable)", "same", ["D Cf B"]))
    # configured after the fact
    t.append(_sp("@F; set_dispatch; set_cache", "same", ["B"], post=["setd", "setc"]))
    t.append(_sp("@F bare; set_dispatch; set_cache(callable)", "same", [""], post=["setd", "setcf"]))
    t.append(_sp("@F(cache, callback); set_dispatch", "same", ["C B"], post=["setd"]))
    t.append(_sp("@F(wrong dispatch, ...); set_dispatch", "same", ["D? C B"], post=["setd"]))
    t.append(_sp("F(f, dispatch, callback); set_cache", "same", ["D B"], "with", post=["setc"]))
    # nocache
    t.append(_sp("@F.nocache(kw, cache)", "same.nocache", [ALL]))
    t.append(_sp("@F.nocache(dispatch, callback); set_cache", "same.nocache", ["D B"], post=["setc"]))
    t.append(_sp("F(kw, wrong cache).nocache(f, cache)", "same", ["D C? B", ".nocache", "C"], "with"))
    t.append(_sp("F.nocache.nocache(kw)(f)", "same.nocache", [".nocache", ALL], "call"))
    # abstract given explicitly: on the factory that already agrees, and on the one that does not
    t.append(_sp("@F(kw, abstract=same)", "same", [ALL + " A="]))
    t.append(_sp("@G(kw, abstract=other)", "opp", [ALL + " A="]))
    t.append(_sp("G(f, kw, abstract=other)", "opp", [ALL + " A="], "with"))
    t.append(_sp("G(kw, abstract=other)(f)", "opp", [ALL + " A="], "call"))
    t.append(_sp("G(None, kw, abstract=other)(f)", "opp", ["None " + ALL + " A="], "call"))
    t.append(_sp("G(kw)(f, abstract=other)", "opp", [ALL, "A="], "with"))
    t.append(_sp("@G(kw)(abstract=other)", "opp", [ALL, "A="]))
    t.append(_sp("@G(abstract=other)(kw)", "opp", ["A=", ALL]))
    t.append(_sp("@G(abstract=other)(kw, abstract=None)", "opp", ["A=", ALL + " A0"]))
    t.append(_sp("G(abstract=other)(f, kw)", "opp", ["A=", ALL], "with"))
    t.append(_sp("@F(abstract=wrong)(kw, abstract=right)", "same", ["A!", ALL + " A="]))
    t.append(_sp("F(kw, abstract=wrong)(f, abstract=right)", "same", [ALL + " A!", "A="], "with"))
    t.append(_sp("F(abstract=wrong)(abstract=right)(abstract=wrong)(abstract=right)(kw)(f)", "same",
                 ["A!", "A=", "A!", "A=", ALL], "call"))
    t.append(_sp("G(abstract=other, dispatch)(cache)(callback)(f)", "opp", ["A= D", "C", "B"], "call"))
    t.append(_sp("G.update(kw, abstract=other)(f)", "opp", [".update " + ALL + " A="], "call"))
    t.append(_sp("G(kw, abstract=other).wrap(f)", "opp", [ALL + " A="], "wrap"))
    t.append(_sp("@G.nocache(kw, abstract=other)", "opp.nocache", [ALL + " A="]))
    t.append(_sp("G(f, cache, callback, abstract=other); set_dispatch", "opp", ["C B A="], "with", post=["setd"]))
    # every keyword given with its "off" value: together with the real ones, after them, before them
    OFF = "O0 P0 E0 F0"
    NONE = "O00 P00 E00 F00"
    t.append(_sp("@F(kw, abstract=same, options={}, default_options={}, effects=[], defaults={})", "same",
                 [ALL + " A= " + OFF]))
    t.append(_sp("F(f, kw, options=None, default_options=None, effects=None, defaults=None, abstract=None)", "same",
                 [ALL + " A0 " + NONE], "with"))
    t.append(_sp("@F(kw)(every keyword None or empty)", "same", [ALL, "D0 C0 B0 A0 " + OFF]))
    t.append(_sp("F(kw)(f, every keyword None)", "same", [ALL, "D0 C0 B0 A0 " + NONE], "with"))
    t.append(_sp("@F(every keyword None or empty)(kw)", "same", ["D0 C0 B0 A0 " + OFF, ALL]))
    t.append(_sp("@G(kw, abstract=other)(every keyword None or empty)", "opp", [ALL + " A=", "D0 C0 B0 A0 " + OFF]))
    t.append(_sp("G(every keyword None)(f, kw, abstract=other)", "opp", ["D0 C0 B0 A0 " + NONE, ALL + " A="], "with"))
    t.append(_sp("@F(dispatch=None, cache)(dispatch, callback=None)(callback, cache=None)", "same",
                 ["D0 C", "D B0", "B C0"]))
    # a later explicit value replaces an earlier one
    t.append(_sp("@F(wrong dispatch)(kw)", "same", ["D?", ALL]))
    t.append(_sp("F(wrong dispatch)(f, kw, dispatch as Evaluatable)", "same", ["D?", "Do C B"], "with"))
    t.append(_sp("@F(wrong cache)(kw)", "same", ["C?", ALL]))
    t.append(_sp("F(wrong callback)(kw)(f)", "same", ["B?", ALL], "call"))
    t.append(_sp("F(wrong dispatch, wrong cache, wrong callback, abstract=wrong)(f, kw, abstract=right)", "same",
                 ["D? C? B? A!", ALL + " A="], "with"))
    t.append(_sp("@G(wrong dispatch, wrong cache)(kw, abstract=other)(all None)", "opp",
                 ["D? C?", ALL + " A=", "D0 C0 B0 A0"]))
    # the parameter defaults through defaults= / where
    t.append(_sp("@F(kw, defaults=...)", "same", [ALL + " W"]))
    t.append(_sp("F.where(...)(f, kw)", "same", [".where", ALL], "with"))
    t.append(_sp("@F(kw).where(...)", "same", [ALL, ".where"]))
    t.append(_sp("G(abstract=other).where(...)(kw)(f)", "opp", ["A=", ".where", ALL], "call"))
    # one factory, several datasets
    t.append(_sp("fac = F(dispatch, callback); @fac(cache)  [fac reused]", "same", ["D B", "C"], "with", reuse=True))
    t.append(_sp("fac = F(dispatch, callback, cache as callable); @fac  [fac reused]", "same", ["D Cf B"], reuse=True))
    t.append(_sp("fac = G(dispatch, callback); fac(f, cache, abstract=other)  [fac reused]", "opp",
                 ["D B", "C A="], "with", reuse=True))
    t.append(_sp("fac = G(dispatch)(callback); @fac(abstract=other, cache)  [fac reused]", "opp",
                 ["D", "B", "A= C"], "with", reuse=True))
    t.append(_sp("fac = G(abstract=other)(kw, cache as callable); fac(f)  [fac reused]", "opp",
                 ["A=", "D Cf B"], "call", reuse=True))
    t.append(_sp("fac = F(kw, cache as callable); fac(f, abstract=same)  [fac reused]", "same",
                 ["D Cf B", "A="], "with", reuse=True))
    assert len({s["id"] for s in t}) == len(t)
    return t


SPELLINGS = spelling_table()
SPELL = {s["id"]: s for s in SPELLINGS}


def spell_emit(sp, name, disp, abstract, cb, leaf=None, expr=None, k=0, cache=True):
    """lines building dataset `name` (dispatch `disp`, abstract or not, callback cb) by spelling `sp`.
    leaf: spec of the function to define (default implementation) | expr: an Evaluatable expression to wrap |
    neither: abstract, the function is a placeholder.  cache=False: a dataset that is given no cache (nested
    implementations, interface members) -- the cache keywords of the spelling are left out.
    Raises Inapplicable / AssertionError (table error)."""
    has_disp = disp[0] != "missing"
    if not cache and (sp["reuse"] or "nocache" in sp["base"] or any(
            tk in (".nocache", "C?") for s_ in sp["steps"] for tk in s_.split()) or set(sp["post"]) & {"setc", "setcf"}):
        raise Inapplicable(sp["id"])
    if sp["post"] and "setd" in sp["post"] and not has_disp:
        raise Inapplicable(sp["id"])
    lines = []
    base = sp["base"].split(".")
    f_abs = abstract if base[0] == "same" else not abstract
    st = {"disp": None, "cache": None, "cb": None, "abstract": f_abs}
    e = "abstractdataset" if f_abs else "dataset"
    if len(base) > 1:
        e += ".nocache"
        st["cache"] = "nocache"
    cache_src = "LogCache(%r)" % name
    wdefaults = None
    if leaf is not None:
        wdefaults = []
        for n, (key, dd) in enumerate(leaf["reads"]):
            wdefaults.append(("a%d" % n, "Option(%r)" % key if dd is None else "Option(%r, %s)" % (key, py(dd["d"]))))
    bare_params = False

    def kw_of(tokens):
        nonlocal bare_params
        kws = []
        for tk in tokens:
            if tk == "D":
                if has_disp:
                    kws.append("dispatch=" + disp_src(disp)); st["disp"] = "right"
            elif tk == "Do":
                if has_disp:
                    kws.append("dispatch=" + disp_src(disp, True)); st["disp"] = "right"
            elif tk == "D?":
                kws.append("dispatch='K9'"); st["disp"] = "wrong"
            elif tk == "D0":
                kws.append("dispatch=None")
            elif tk in ("C", "Cf") and not cache:
                pass
            elif tk == "C":
                kws.append("cache=" + cache_src); st["cache"] = "right"
            elif tk == "Cf":
                kws.append("cache=(lambda: %s)" % cache_src); st["cache"] = "right"
            elif tk == "C?":
                kws.append("cache=LogCache('wrong')"); st["cache"] = "wrong"
            elif tk == "C0":
                kws.append("cache=None")
            elif tk == "B":
                if cb is not None:
                    kws.append("callback=cb%d" % cb); st["cb"] = "right"
            elif tk == "B?":
                kws.append("callback=_cbwrong"); st["cb"] = "wrong"
            elif tk == "B0":
                kws.append("callback=None")
            elif tk in ("A=", "A!"):
                v = abstract if tk == "A=" else not abstract
                kws.append("abstract=%r" % v); st["abstract"] = v
            elif tk == "A0":
                kws.append("abstract=None")
            elif tk in ("O0", "O00", "P0", "P00", "E0", "E00", "F0", "F00"):
                kwn = {"O": "options", "P": "default_options", "E": "effects", "F": "defaults"}[tk[0]]
                off = "None" if tk.endswith("00") else ("[]" if tk[0] == "E" else "{}")
                kws.append("%s=%s" % (kwn, off))
            elif tk == "W":
                if wdefaults is not None:
                    kws.append("defaults={%s}" % ", ".join("%r: %s" % (a, s) for a, s in wdefaults))
                    bare_params = True
            else:
                raise AssertionError("unknown token %r in spelling %r" % (tk, sp["id"]))
        return kws

    steps = list(sp["steps"])
    final_kw = None
    last = steps.pop() if sp["final"] == "with" else None
    for s in steps:
        toks = s.split()
        if s == "":
            continue
        if s == "-":
            e += "()"
        elif toks[0] == ".nocache":
            assert len(toks) == 1
            e += ".nocache"; st["cache"] = "nocache"
        elif toks[0] == ".where":
            assert len(toks) == 1
            if wdefaults is not None:
                e += ".where(%s)" % ", ".join("%s=%s" % (a, s_) for a, s_ in wdefaults)
                bare_params = True
            else:
                e += ".where()"
        elif toks[0] == ".update":
            e += ".update(%s)" % ", ".join(kw_of(toks[1:]))
        elif toks[0] == "None":
            e += "(%s)" % ", ".join(["None"] + kw_of(toks[1:]))
        else:
            e += "(%s)" % ", ".join(kw_of(toks))
    fac_abstract = st["abstract"]          # what the factory itself says (the datasets of `reuse`)
    if sp["reuse"]:
        lines += ["_F%s = %s" % (name, e),
                  "def _decoy_%s_a():" % name, "    return ('decoy', %r)" % name,
                  "DECOY(_F%s(_decoy_%s_a, cache=MemoryCache()), %r, %d)" % (name, name, fac_abstract, k)]
        e = "_F" + name
    if last is not None:
        assert last not in ("", "-") and last.split()[0][0] != "." and last.split()[0] != "None"
        final_kw = kw_of(last.split())
    # the definition and the final call
    if expr is not None:
        arg = expr
    elif sp["final"] == "deco":
        arg = None
    else:
        arg = "_fn_" + name
    fname = name if arg is None else arg
    if expr is None:
        deco = [e] if arg is None else []
        if leaf is None:
            body = ["@" + d_ for d_ in deco] + ["def %s():" % fname, "    pass"]
        elif bare_params:       # the parameters get their defaults from defaults= / where
            sig = ", ".join("a%d" % n for n in range(len(leaf["reads"])))
            body = ["@" + d_ for d_ in deco] + [
                "def %s(%s):" % (fname, sig),
                "    COUNT[%r] = COUNT.get(%r, 0) + 1" % (leaf["tag"], leaf["tag"]),
                "    return (%r,%s)" % (leaf["tag"], "".join(" a%d," % n for n in range(len(leaf["reads"]))))]
        else:
            body = leaf_def(fname, leaf, deco, "")
        lines += body
    if arg is not None:
        if sp["final"] == "wrap":
            lines.append("%s = %s.wrap(%s)" % (name, e, arg))
        elif final_kw is not None:
            lines.append("%s = %s(%s)" % (name, e, ", ".join([arg] + final_kw)))
        else:
            lines.append("%s = %s(%s)" % (name, e, arg))
    for p in sp["post"]:
        if p == "setd":
            lines.append("%s.set_dispatch(%s)" % (name, disp_src(disp, True))); st["disp"] = "right"
        elif p == "setc":
            lines.append("%s.set_cache(%s)" % (name, cache_src)); st["cache"] = "right"
        elif p == "setcf":
            lines.append("%s.set_cache(lambda: %s)" % (name, cache_src)); st["cache"] = "right"
        else:
            raise AssertionError(p)
    if sp["reuse"]:
        lines += ["def _decoy_%s_b():" % name, "    return ('decoy', %r)" % name,
                  "DECOY(_F%s(_decoy_%s_b, cache=MemoryCache()), %r, %d)" % (name, name, fac_abstract, k)]
    want = {"disp": "right" if has_disp else None, "cache": "right" if cache else None, "cb": "right" if cb is not None else None,
            "abstract": abstract}
    if st != want:      # (a spelling without a callback keyword cannot make a dataset with a callback, ...)
        raise Inapplicable("spelling %r folds to %r, not to the operation's %r" % (sp["id"], st, want))
    return lines


def _applicability():
    """(has dispatch, has callback) -> ids of the spellings whose folded meaning is such a dataset; a spelling
    applies to the abstract and to the non-abstract dataset alike, and every spelling applies somewhere"""
    out = {}
    for hd in (True, False):
        for hc in (True, False):
            ids = []
            for s in SPELLINGS:
                ok = []
                for ab in (False, True):
                    try:
                        spell_emit(s, "d0", ["key", "K"] if hd else ["missing"], ab, 1 if hc else None,
                                   leaf=None if ab else {"tag": "t", "reads": [["A", None]]})
                        ok.append(True)
                    except Inapplicable:
                        ok.append(False)
                assert ok[0] == ok[1], "spelling %r applies to one abstractness only" % s["id"]
                if ok[0]:
                    ids.append(s["id"])
            out[(hd, hc)] = ids
    missing = [s["id"] for s in SPELLINGS if not any(s["id"] in ids for ids in out.values())]
    assert not missing, "spellings whose folded meaning is no dataset at all: %r" % missing
    return out


APPLICABLE = _applicability()


def spell_applicable(sp, has_disp, has_cb):
    return sp["id"] in APPLICABLE[(has_disp, has_cb)]


def spelling_for(has_disp, has_cb, salt):
    """the spelling a dataset gets: the salt-th of those applicable to it (no random stream consumed)"""
    app = APPLICABLE[(has_disp, has_cb)]
    return app[salt % len(app)]


def _applicability_nocache():
    """the same for datasets that get no cache keyword: nested dispatching implementations ("sw": any form that
    needs no DECOY helper) and interface members ("member": decorator forms only, no dispatch of their own)"""
    out = {"sw": {}, "member": {}}
    for hc in (True, False):
        for kind, hd in (("sw", True), ("member", False)):
            ids = []
            for s in SPELLINGS:
                if kind == "member" and (s["final"] != "deco" or s["post"]):
                    continue
                try:
                    for ab in (False, True):
                        spell_emit(s, "m", ["key", "K"] if hd else ["missing"], ab, 1 if hc else None,
                                   leaf=None if ab else {"tag": "t", "reads": []}, cache=False)
                    ids.append(s["id"])
                except Inapplicable:
                    pass
            assert len(ids) > 10
            out[kind][hc] = ids
    return out


APPLICABLE_NOCACHE = _applicability_nocache()


def annotate(case, n, seed):
    """give every dataset of program number n that has none yet its spelling, by its number: the sixth element of a
    "new" operation / of an interface member of kind "abs" or "ds", the "sp" entry of a nested dispatching
    implementation (no random stream consumed; the history itself is what it was)"""
    ops = []
    base = seed * 17 + n * 7
    for op in case["ops"]:
        if op[0] == "new" and len(op) == 5:
            op = op + [spelling_for(op[2][0] != "missing", op[4] is not None, base + op[1] * 3)]
        elif op[0] == "iface":
            ms = []
            for m in op[3]:
                if m[2] in ("abs", "ds") and len(m) == 5:
                    app = APPLICABLE_NOCACHE["member"][m[4] is not None]
                    m = m + [app[(base + m[1] * 3) % len(app)]]
                ms.append(m)
            op = op[:3] + [ms]
        ops.append(op)
    impls = []
    for i, sp in enumerate(case["impls"]):
        if sp["k"] == "sw" and "sp" not in sp:
            app = APPLICABLE_NOCACHE["sw"][sp.get("cb") is not None]
            sp = dict(sp, sp=app[(base + i * 5 + 1) % len(app)])
        impls.append(sp)
    return dict(case, ops=ops, impls=impls)


# --------------------------------------------------------------------------------------------
# Option-based dispatch expressions ("ox"): their source through labrea's public API, and -- written from the
# documentation of Option / WithOptions / case / switch / coalesce / labrea.functions, without labrea -- what
# they evaluate to under an options dictionary and which option keys that value was read from.
#
#   ox  := ["c", v]                                     Value(v) / a plain constant
#        | ["opt", KEY, spec]                           Option(KEY, ...)
#        | ["str", KEY]                                 the string form dispatch='KEY' (top level only)
#        | ["ns", style, KEY, spec]                     a member of an Option.namespace (KEY = 'NS.MEMBER' or
#                                                       'NS.SUB.MEMBER'); style: "option" an explicit Option in the
#                                                       class body | "auto" Option.auto(...) | "const" a plain
#                                                       default value | "ann" an annotation only
#        | ["with", ox, {options}, force]               WithOptions(ox, options) / WithDefaultOptions(ox, options)
#        | ["dswith", ox, {options}, force]             a dataset over ox, .with_options / .with_default_options
#        | ["pipe", ox, fn, style]                      ox >> fn | ox.apply(fn) | ox >> f1 >> f2 (fn: OX_FUNCS)
#        | ["case", ox, [[pred, res]...], res | None]   case(ox).when(pred, res)....otherwise(res)
#        | ["switch", ox | ["str", KEY], [[v, res]...], res | None]
#        | ["coalesce", [ox...]]
#   spec := {"default": {"d": v} | "default_ox": ox | "factory": {"d": v}, "type": "int" | "str", "tstyle":
#            "getitem" | "kw", "domain": dom}           (a str default is a template, like a str option value)
#   dom  := ["cont", kind, [v...]]                      kind: list tuple set frozenset dict value (= Value(list))
#        | ["range", lo, hi]
#        | ["pred", name]                               OX_PREDS
#        | ["ev", ox]                                   an Evaluatable yielding the container (an Option holding
#                                                       the allowed values, ...)
#        | ["F", helper, [arg...]]                      labrea.functions: one_of none_of is_in is_not_in eq ne
#                                                       invert(pred name) negate; an arg may be ["ox", ox]
#
# Reading (ox_ref): Option: the key present -> its value (a string value "{OTHER}" is the value of OTHER, a
# reference to a missing key is an error, not a reason to use the default), else the default (evaluated if it is an
# Evaluatable, a template if it is a string), else default_factory(), else KeyNotFoundError; `type` is an
# annotation (nothing enforces it unless a third party handles the request); the value -- provided OR default --
# must satisfy the domain (in the container / predicate true), else the Option cannot be evaluated (ValueError);
# a domain that cannot be evaluated, or a predicate that raises, fails the Option as well.  The keys are the
# option's own when present, those of the default otherwise, those of templates followed and of the domain.

OX_PREDS = {
    "in-fes": "lambda v: v in ('fast', 'exact', 'slow')",
    "not-auto-bogus": "lambda v: v not in ('auto', 'bogus')",
    "eq-fast": "lambda v: v == 'fast'",
    "eq-exact": "lambda v: v == 'exact'",
    "eq-auto": "lambda v: v == 'auto'",
    "is-str": "lambda v: isinstance(v, str)",
    "not-none": "lambda v: v is not None",
    "ident": "lambda v: v",
    "bool": "bool",
    "islower": "str.islower",
    "len3+": "lambda v: len(v) > 3",
    "pos": "lambda v: v > 0",
    "always": "lambda v: True",
    "never": "lambda v: False",
}
OX_FUNCS = {
    "swap": "lambda v: {'fast': 'exact', 'exact': 'fast', 'auto': 'bogus'}.get(v, v)",
    "ident": "lambda v: v",
    "upper": "lambda v: v.upper()",
    "lower": "str.lower",
    "str": "str",
    "first": "lambda v: v[0]",
}


class _Undet(Exception):
    pass


def _ox_dget(key, o):
    cur = o
    for seg in key.split("."):
        if not isinstance(cur, dict) or seg not in cur:
            raise KeyError(key)
        cur = cur[seg]
    return cur


def _ox_has(key, o):
    try:
        _ox_dget(key, o)
        return True
    except KeyError:
        return False


def _ox_merge(lo, hi):
    """`hi` laid over `lo`, section by section"""
    out = dict(lo)
    for k_, v in hi.items():
        out[k_] = _ox_merge(out[k_], v) if isinstance(v, dict) and isinstance(out.get(k_), dict) else v
    return out


_OX_TKEY = re.compile(r"\{([^{}]+)\}")
_OX_ABSENT_END = object()


def _ox_template(v, o, keys, depth=0):
    """a string holding {KEY} references: the referenced values filled in (a string that is one reference IS that
    value); the keys followed are collected; a missing reference cannot be resolved"""
    if not isinstance(v, str) or depth > 4:
        return v
    refs = _OX_TKEY.findall(v)
    if not refs:
        return v
    for r in refs:
        if not _ox_has(r, o):
            raise _Undet("KeyError")
        keys.add(r)
    if v == "{%s}" % refs[0]:
        return _ox_template(_ox_dget(refs[0], o), o, keys, depth + 1)
    for r in refs:
        v = v.replace("{%s}" % r, str(_ox_template(_ox_dget(r, o), o, keys, depth + 1)))
    return v


def _ox_call(f, *a):
    try:
        return f(*a)
    except Exception as e:  # noqa: BLE001  (user code inside the expression failed: it cannot be evaluated)
        raise _Undet(type(e).__name__)


def _ox_dom_ref(dom, value, o, keys):
    k = dom[0]
    if k == "cont":
        vals = [dec(x) for x in dom[2]]
        cont = {"list": list, "value": list, "tuple": tuple, "set": set, "frozenset": frozenset,
                "dict": lambda xs: {x: 1 for x in xs}}[dom[1]](vals)
        return value in cont
    if k == "range":
        return value in range(dom[1], dom[2])
    if k == "pred":
        return bool(_ox_call(eval(OX_PREDS[dom[1]]), value))
    if k == "ev":
        cont, ks = ox_ref(dom[1], o)
        keys |= ks
        return bool(_ox_call(cont, value)) if callable(cont) else _ox_call(lambda: value in cont)
    if k == "F":
        args = []
        for a in dom[2]:
            if isinstance(a, list) and a and a[0] == "ox":
                av, ks = ox_ref(a[1], o)
                keys |= ks
                args.append(av)
            else:
                args.append(dec(a))
        h = dom[1]
        if h == "one_of":
            return value in tuple(args)
        if h == "none_of":
            return value not in tuple(args)
        if h == "is_in":
            return value in args[0]
        if h == "is_not_in":
            return value not in args[0]
        if h == "eq":
            return value == args[0]
        if h == "ne":
            return value != args[0]
        if h == "invert":
            return not _ox_call(eval(OX_PREDS[args[0]]), value)
        if h == "negate":
            return bool(_ox_call(lambda v: -v, value))
    raise ValueError(dom)


def _ox_opt_ref(key, spec, o):
    keys = set()
    if _ox_has(key, o):
        keys.add(key)
        value = _ox_template(_ox_dget(key, o), o, keys)
    elif "default" in spec:
        value = dec(spec["default"]["d"])
        if isinstance(value, str):
            value = str(_ox_template(value, o, keys))
    elif "default_ox" in spec:
        value, ks = ox_ref(spec["default_ox"], o)
        keys |= ks
    elif "factory" in spec:
        value = dec(spec["factory"]["d"])
    else:
        raise _Undet("KeyNotFoundError:" + key)
    if "domain" in spec and not _ox_dom_ref(spec["domain"], value, o, keys):
        raise _Undet("ValueError")
    return value, keys


def _ox_res_ref(res, o):
    return ox_ref(res, o)


def ox_ref(ox, o):
    """-> (value, the option keys of `o` it was read from); raises _Undet(root error name)"""
    k = ox[0]
    if k == "c":
        return dec(ox[1]), set()
    if k == "opt":
        return _ox_opt_ref(ox[1], ox[2], o)
    if k == "str":
        return _ox_opt_ref(ox[1], {}, o)
    if k == "ns":
        return _ox_opt_ref(ox[2], ox[3], o)
    if k in ("with", "dswith"):
        _, inner, pinned, force = ox
        seen = _ox_merge(o, pinned) if force else _ox_merge(pinned, o)
        value, ks = ox_ref(inner, seen)
        # a key the wrapper supplies is not the caller's
        return value, {x for x in ks if not (_ox_has(x, pinned) and (force or not _ox_has(x, o)))}
    if k == "pipe":
        value, ks = ox_ref(ox[1], o)
        for fn in ox[2] if isinstance(ox[2], list) else [ox[2]]:
            value = _ox_call(eval(OX_FUNCS[fn]), value)
        return value, ks
    if k == "case":
        value, ks = ox_ref(ox[1], o)
        for pred, res in ox[2]:
            if _ox_call(eval(OX_PREDS[pred]), value):
                rv, rk = _ox_res_ref(res, o)
                return rv, ks | rk
        if ox[3] is None:
            raise _Undet("CaseWhenError")
        rv, rk = _ox_res_ref(ox[3], o)
        return rv, ks | rk
    if k == "switch":
        try:
            value, ks = ox_ref(ox[1], o)
        except _Undet:
            if ox[3] is None:
                raise
            return _ox_res_ref(ox[3], o)      # the switch's own default, not depending on its dispatch
        for v, res in ox[2]:
            if dec(v) == value:
                rv, rk = _ox_res_ref(res, o)
                return rv, ks | rk
        if ox[3] is None:
            raise _Undet("SwitchError")
        rv, rk = _ox_res_ref(ox[3], o)
        return rv, ks | rk
    if k == "coalesce":
        last = None
        for m in ox[1]:
            try:
                return ox_ref(m, o)
            except _Undet as e:
                last = e
        raise last
    raise ValueError(ox)


def ox_dispatch_ref(ox, o):
    """('ok', value, [[key, raw option value]...] sorted) | ('undet', root error name)"""
    try:
        value, ks = ox_ref(ox, o)
    except _Undet as e:
        return ("undet", e.args[0])
    return ("ok", value, [[x, _ox_dget(x, o)] for x in sorted(ks)])


def _ox_spec_src(spec, g, auto=False):
    """the arguments after the key of Option(KEY, ...) / of Option.auto(...)"""
    args = []
    if "default" in spec:
        args.append(("" if spec.get("dstyle") == "pos" and not auto else "default=") + py(spec["default"]["d"]))
    elif "default_ox" in spec:
        args.append(("" if spec.get("dstyle") == "pos" and not auto else "default=") + ox_src(spec["default_ox"], g))
    if "factory" in spec:
        args.append("default_factory=lambda: %s" % py(spec["factory"]["d"]))
    if "type" in spec and spec.get("tstyle") != "getitem":
        args.append("type=%s" % spec["type"])
    if "domain" in spec:
        args.append("domain=" + _ox_dom_src(spec["domain"], g))
    return args


def _ox_dom_src(dom, g):
    k = dom[0]
    if k == "cont":
        vals = [dec(x) for x in dom[2]]
        kind = dom[1]
        if kind in ("list", "tuple"):
            return repr(vals if kind == "list" else tuple(vals))
        if kind == "value":
            return "Value(%r)" % (vals,)
        if kind == "dict":
            return "{" + ", ".join("%r: 1" % (x,) for x in vals) + "}"
        return "%s(%r)" % (kind, vals)
    if k == "range":
        return "range(%d, %d)" % (dom[1], dom[2])
    if k == "pred":
        return "(%s)" % OX_PREDS[dom[1]]
    if k == "ev":
        return ox_src(dom[1], g)
    if k == "F":
        if dom[1] == "negate":
            return "F.negate"
        if dom[1] == "invert":
            return "F.invert(%s)" % OX_PREDS[dom[2][0]]
        args = [ox_src(a[1], g) if isinstance(a, list) and a and a[0] == "ox" else py(a) for a in dom[2]]
        return "F.%s(%s)" % (dom[1], ", ".join(args))
    raise ValueError(dom)


def _ox_res_src(res, g, plain):
    return py(res[1]) if res[0] == "c" and plain else ox_src(res, g)


def ox_src(ox, g):
    """python source of the expression; g = {"pre": [module-level lines], "n": [counter], "tag": name prefix}"""
    k = ox[0]

    def fresh(stem):
        g["n"][0] += 1
        return "_%s_%s%d" % (g["tag"], stem, g["n"][0])

    if k == "c":
        return "Value(%s)" % py(ox[1])
    if k == "opt":
        key, spec = ox[1], ox[2]
        head = "Option[%s]" % spec["type"] if spec.get("tstyle") == "getitem" else "Option"
        return "%s(%s)" % (head, ", ".join([repr(key)] + _ox_spec_src(spec, g)))
    if k == "str":
        return "Option(%r)" % ox[1]
    if k == "ns":
        _, style, key, spec = ox
        path = key.split(".")
        member = path[-1]
        if style == "option":
            line = "%s = Option(%s)" % (member, ", ".join([repr(member)] + _ox_spec_src(spec, g)))
        elif style == "auto":
            line = "%s = Option.auto(%s)" % (member, ", ".join(_ox_spec_src(spec, g, auto=True)))
        elif style == "const":
            assert set(spec) == {"default"}
            line = "%s = %s" % (member, py(spec["default"]["d"]))
        elif style == "ann":
            assert not spec
            line = "%s: str" % member
        else:
            raise ValueError(style)
        top = fresh("NS")
        g["pre"].append("@Option.namespace(%r)" % path[0])
        g["pre"].append("class %s:" % top)
        ind = "    "
        for sub in path[1:-1]:
            g["pre"].append(ind + "class %s:" % sub)
            ind += "    "
        g["pre"].append(ind + line)
        return ".".join([top] + path[1:])
    if k == "with":
        return "%s(%s, %r)" % ("WithOptions" if ox[3] else "WithDefaultOptions", ox_src(ox[1], g), ox[2])
    if k == "dswith":
        name = fresh("ds")
        g["pre"] += ["@dataset", "def %s(x=%s):" % (name, ox_src(ox[1], g)), "    return x"]
        return "%s.%s(%r)" % (name, "with_options" if ox[3] else "with_default_options", ox[2])
    if k == "pipe":
        inner = ox_src(ox[1], g)
        style = ox[3] if len(ox) > 3 else ">>"
        if isinstance(ox[2], list):
            return "(%s)" % " >> ".join([inner] + ["(%s)" % OX_FUNCS[fn] for fn in ox[2]])
        if style == "apply":
            return "%s.apply(%s)" % (inner, OX_FUNCS[ox[2]])
        return "(%s >> (%s))" % (inner, OX_FUNCS[ox[2]])
    if k == "case":
        s = "case(%s)" % ox_src(ox[1], g)
        for n, (pred, res) in enumerate(ox[2]):
            s += ".when(%s, %s)" % (OX_PREDS[pred], _ox_res_src(res, g, n % 2 == 0))
        if ox[3] is not None:
            s += ".otherwise(%s)" % _ox_res_src(ox[3], g, True)
        return s
    if k == "switch":
        disp = repr(ox[1][1]) if ox[1][0] == "str" else ox_src(ox[1], g)
        tbl = "{" + ", ".join("%s: %s" % (py(v), _ox_res_src(res, g, n % 2 == 0)) for n, (v, res) in enumerate(ox[2])) + "}"
        return "switch(%s, %s%s)" % (disp, tbl, "" if ox[3] is None else ", " + _ox_res_src(ox[3], g, False))
    if k == "coalesce":
        return "coalesce(%s)" % ", ".join(ox_src(m, g) for m in ox[1])
    raise ValueError(ox)


def ox_lines(name, n, ox):
    """module-level lines binding `name` to the dispatch expression (the string form binds the key itself:
    `dataset(dispatch=name)` / `interface(name)` then receive a string)"""
    if ox[0] == "str":
        return ["%s = %r" % (name, ox[1])]
    g = {"pre": [], "n": [0], "tag": "ox%d" % n}
    src = ox_src(ox, g)
    return g["pre"] + ["%s = %s" % (name, src)]


def ox_key(n):
    """the key under which the model is told the dispatch value of the n-th dispatch expression"""
    return "@D%d" % n


def _plain_keys(case):
    """the option keys read by implementations and by the plain dispatch forms (flat scalars; the model gets these)"""
    ks = set()

    def leaf(l):
        ks.update(k_ for k_, _ in l["reads"])

    for sp in case["impls"]:
        if sp["k"] == "leaf":
            leaf(sp)
        elif sp["k"] == "opt":
            ks.add(sp["key"])
        elif sp["k"] == "sw":
            ks.add(sp["key"])
            for _, l in sp["tbl"]:
                leaf(l)
            if sp.get("dflt") is not None:
                leaf(sp["dflt"])
    for n, sp in enumerate(case["disps"]):
        if sp.get("ox") is None:
            ks.add(sp["key"])

    def disp(d):
        if d[0] in ("key", "keyd"):
            ks.add(d[1])

    for op in case["ops"]:
        if op[0] in ("new", "setd", "iface"):
            disp(op[2])
    return ks


def ox_lowering(case):
    """for a case with Option-based dispatch expressions: what the model is told.  -> (disps for the model,
    {op index: options for the model}, {op index: {n: reading}}) with reading = ox_dispatch_ref + the token.
    The n-th expression becomes the dispatch dataset over the private key @D<n> whose MAP sends a token to the
    dispatch value; an evaluation's options carry the token (one per distinct reading: value and the keys it came
    from) when the value can be determined and nothing when it cannot; the keys only the expression reads are
    left out (the model's dictionaries are flat) and come back through `ox_fix_line`."""
    plain = _plain_keys(case)
    disps, maps = [], {}
    for n, sp in enumerate(case["disps"]):
        if sp.get("ox") is None:
            disps.append({"key": sp["key"], "map": sp["map"]})
        else:
            maps[n] = {}
            disps.append({"key": ox_key(n), "map": []})
    opts, readings = {}, {}
    for k, op in enumerate(case["ops"]):
        if op[0] != "eval":
            continue
        mo = {a: b for a, b in op[2].items() if a in plain}
        readings[k] = {}
        for n in maps:
            r = ox_dispatch_ref(case["disps"][n]["ox"], op[2])
            if r[0] == "ok":
                if any(a in plain for a, _ in r[2]):
                    raise AssertionError("a dispatch expression shares a key with an implementation: %r" % (r[2],))
                ident = json.dumps([enc(r[1]), r[2]], sort_keys=True, default=repr)
                tok = maps[n].setdefault(ident, ("tok%d" % len(maps[n]), r[1]))[0]
                mo[ox_key(n)] = tok
                r = r + (tok,)
            readings[k][n] = r
        opts[k] = mo
    for n, m in maps.items():
        disps[n]["map"] = [[tok, enc(v)] for tok, v in m.values()]
    return disps, opts, readings


def _split_top(s):
    """split the inside of a printed fingerprint at its top-level commas"""
    out, depth, quote, cur = [], 0, False, ""
    for ch in s:
        if ch == '"':
            quote = not quote
        elif not quote and ch in "[(":
            depth += 1
        elif not quote and ch in "])":
            depth -= 1
        if ch == "," and depth == 0 and not quote:
            out.append(cur)
            cur = ""
        else:
            cur += ch
    if cur:
        out.append(cur)
    return out


def ox_fix_line(case, line):
    """the model's observations of a lowered case, said in the implementation's terms: the private key @D<n> of a
    fingerprint is replaced by the option keys the reference reading took the dispatch value from, "the key
    @D<n> is missing" by the root cause of that reading's failure"""
    _, _, readings = ox_lowering(case)
    parts = line.split(" | ")
    evs = [k for k, op in enumerate(case["ops"]) if op[0] == "eval"]
    idx = [j for j, p in enumerate(parts) if p.startswith(("val=", "err="))]
    if len(evs) != len(idx):
        return line
    for k, j in zip(evs, idx):
        p = parts[j]
        for n, r in readings[k].items():
            key = ox_key(n)
            if r[0] == "undet":
                if p == "err=KeyNotFoundError:" + key:
                    p = "err=" + r[1]
                continue
            i = p.rfind(" fp=[")
            if i < 0 or not p.endswith("]"):
                continue
            ents = _split_top(p[i + 5:-1])
            mine = '%s="%s"' % (key, r[3])
            if mine not in ents:
                continue
            ents.remove(mine)
            ents += ["%s=%s" % (a, canon(b)) for a, b in r[2]]
            ents.sort(key=lambda e: e.split("=", 1)[0])
            p = p[:i + 5] + ",".join(ents) + "]"
        parts[j] = p
    return " | ".join(parts)


def has_ox(case):
    return any(sp.get("ox") is not None for sp in case["disps"])


_FP = re.compile(r" fp=\[[^|]*?\](?= \| |$)")


def obs_differ(case, impl_obs, model_line):
    """do the implementation and the model disagree on a history?  A dispatch expression marked "nofp" (a recorded
    deviation of labrea's keys() from the documented reading, see OX_DEVIATIONS) is compared without the
    fingerprints: values, failures and hit-or-miss only"""
    if any(sp.get("nofp") for sp in case["disps"]):
        return _FP.sub("", impl_obs) != _FP.sub("", model_line)
    return impl_obs != model_line


class Gen:
    """generates the program for one case"""

    def __init__(self, case):
        self.case = case
        self.impls = case["impls"]
        self.expr = {}  # impl id -> python expression once materialised
        self.lines = []
        self.ncls = 0
        self.fresh_cache = set()

    def emit(self, *ls):
        self.lines.extend(ls)

    # ---- implementations

    def materialise(self, i, ind=""):
        """make impl i available as an Evaluatable expression"""
        if i in self.expr:
            return self.expr[i]
        sp = self.impls[i]
        name = "i%d" % i
        k = sp["k"]
        if k == "leaf":
            self.emit(*leaf_def("_f_" + name, sp, [], ind))
            if i % 2 == 0:
                self.emit(ind + "%s = FunctionApplication.lift(_f_%s)" % (name, name))
            else:
                self.emit(ind + "%s = dataset(_f_%s)" % (name, name))
        elif k == "const":
            self.emit(ind + "%s = Value(%s)" % (name, py(sp["v"])))
        elif k == "opt":
            if sp.get("d") is None:
                self.emit(ind + "%s = Option(%r)" % (name, sp["key"]))
            else:
                self.emit(ind + "%s = Option(%r, %s)" % (name, sp["key"], py(sp["d"]["d"])))
        elif k == "sw":
            kw = "dispatch=%r" % sp["key"]
            if sp.get("cb") is not None:
                kw += ", callback=cb%d" % sp["cb"]
            if sp.get("sp") is not None:
                ls = spell_emit(SPELL[sp["sp"]], name, ["key", sp["key"]], sp.get("dflt") is None, sp.get("cb"),
                                leaf=sp.get("dflt"), cache=False)
                self.emit(*[ind + l for l in ls])
            elif sp.get("dflt") is None:
                self.emit(ind + "@abstractdataset(%s)" % kw, ind + "def %s():" % name, ind + "    pass")
            else:
                self.emit(*leaf_def(name, sp["dflt"], ["dataset(%s)" % kw], ind))
            for n, (al, leaf) in enumerate(sp["tbl"]):
                self.emit(*leaf_def("%s_%d" % (name, n), leaf, ["%s.overload(%s)" % (name, py(al))], ind))
        else:
            raise ValueError(k)
        self.expr[i] = name
        return name

    # ---- operations

    def default_of(self, name, dflt):
        """impl `dflt` was defined as the body of dataset `name`: later operations reach it as name.default -- or,
        should the dataset have come out abstract (DECL reports that), as a separately built object"""
        self.emit("if %s.is_abstract:" % name)
        sub = Gen(self.case)
        sub.expr = dict(self.expr)
        sub.expr.pop(dflt, None)
        nm = sub.materialise(dflt, "    ")
        self.emit(*sub.lines)
        self.emit("    _dfl_%s = %s" % (name, nm), "else:", "    _dfl_%s = %s.default" % (name, name))
        self.expr[dflt] = "_dfl_" + name

    def op_new_spelled(self, op, k):
        _, d, disp, dflt, cb, sid = op
        name = "d%d" % d
        sp = SPELL[sid]
        decl = "DECL(%s, %r, %r, %d)" % (name, name, dflt is None, k)
        if dflt is None:
            self.emit(*spell_emit(sp, name, disp, True, cb, k=k))
            self.emit(decl)
        elif dflt not in self.expr and self.impls[dflt]["k"] == "leaf":
            self.emit(*spell_emit(sp, name, disp, False, cb, leaf=self.impls[dflt], k=k))
            self.emit(decl)
            self.default_of(name, dflt)
        else:
            e = self.materialise(dflt)
            self.emit(*spell_emit(sp, name, disp, False, cb, expr=e, k=k))
            self.emit(decl)
        self.emit("OBS.append('ok')")

    def op_new(self, op, k=0):
        if len(op) > 5:
            return self.op_new_spelled(op, k)
        _, d, disp, dflt, cb = op
        name = "d%d" % d
        kws = []
        if disp[0] != "missing":
            kws.append("dispatch=" + disp_src(disp))
        kws.append("cache=LogCache(%r)" % name)
        if cb is not None:
            kws.append("callback=cb%d" % cb)
        kw = ", ".join(kws)
        decl = "DECL(%s, %r, %r, %d)" % (name, name, dflt is None, k)
        if dflt is None:
            self.emit("@abstractdataset(%s)" % kw, "def %s():" % name, "    pass", decl)
        elif dflt not in self.expr and self.impls[dflt]["k"] == "leaf":
            self.emit(*leaf_def(name, self.impls[dflt], ["dataset(%s)" % kw], ""))
            self.emit(decl)
            self.default_of(name, dflt)
        else:
            e = self.materialise(dflt)
            self.emit("%s = dataset(%s)(%s)" % (name, kw, e), decl)
        self.emit("OBS.append('ok')")

    def op_reg(self, op):
        _, d, al, i = op
        e = self.materialise(i)
        self.emit("d%d.register(%s, %s)" % (d, py(al), e), "OBS.append('ok')")

    @staticmethod
    def _ovl_arg(aliases, style):
        if len(aliases) == 1 and style:
            return py(aliases[0])
        return "[" + ", ".join(py(a) for a in aliases) + "]"

    def op_ovl(self, op, k):
        _, targets, i = op
        decs = ["d%d.overload(%s)" % (d, self._ovl_arg(als, (k + n) % 2 == 0)) for n, (d, als) in enumerate(targets)]
        name = "i%d" % i
        self.emit("try:")
        if i not in self.expr and self.impls[i]["k"] == "leaf":
            self.emit(*leaf_def(name, self.impls[i], list(reversed(decs)), "    "))
            newexpr = name
        else:
            e = self.materialise(i, "    ")
            call = e
            for dsrc in decs:
                call = "%s(%s)" % (dsrc, call)
            # python evaluates the outermost `.overload(...)` first, like stacked decorators
            newexpr = "_o%d" % k
            self.emit("    %s = %s" % (newexpr, call))
        self.emit("    OBS.append('ok')", "except ValueError:", "    OBS.append('ValueError')")
        self.pending_expr = (i, newexpr)

    def op_setd(self, op):
        _, d, disp = op
        self.emit("d%d.set_dispatch(%s)" % (d, disp_src(disp, True)), "OBS.append('ok')")

    def op_iface(self, op):
        _, I, disp, members = op
        name = "I%d" % I
        dsrc = disp_src(disp)
        body = []
        pre = []
        spelled = {m[0]: m[5] for m in members if len(m) > 5}
        members = [m[:5] for m in members]
        for mname, d, kind, dflt, cb in members:
            if kind == "ann":
                body.append("    %s: int" % mname)
            elif kind in ("abs", "ds") and mname in spelled:
                ls = spell_emit(SPELL[spelled[mname]], mname, ["missing"], kind == "abs", cb,
                                leaf=None if kind == "abs" else self.impls[dflt], cache=False)
                assert ls[0].startswith("@") and ls[1].startswith("def ")
                body += ["    @staticmethod"] + ["    " + l for l in ls]
                if kind == "ds":
                    self.expr[dflt] = "%s.%s.default" % (name, mname)
            elif kind == "abs":
                body += ["    @staticmethod", "    @abstractdataset", "    def %s():" % mname, "        pass"]
            elif kind == "fn":
                body += leaf_def(mname, self.impls[dflt], [], "    ")
                self.expr[dflt] = "%s.%s.default" % (name, mname)
            elif kind == "ds":
                kw = "callback=cb%d" % cb if cb is not None else ""
                body += leaf_def(mname, self.impls[dflt], ["staticmethod", "dataset(%s)" % kw], "    ")
                self.expr[dflt] = "%s.%s.default" % (name, mname)
            elif kind == "val":
                sp = self.impls[dflt]
                if sp["k"] == "const":
                    body.append("    %s = %s" % (mname, py(sp["v"])))
                elif sp["k"] == "opt":
                    dd = "" if sp.get("d") is None else ", " + py(sp["d"]["d"])
                    body.append("    %s = Option(%r%s)" % (mname, sp["key"], dd))
                else:
                    raise ValueError("val member needs const/opt")
                self.expr[dflt] = "%s.%s.default" % (name, mname)
            elif kind == "ext":
                body.append("    %s = d%d" % (mname, d))
            else:
                raise ValueError(kind)
        self.emit(*pre)
        self.emit("@interface(%s)" % dsrc, "class %s:" % name, *body)
        if not body:
            self.emit("    pass")
        for mname, d, kind, dflt, cb in members:
            if kind != "ext":
                self.emit("d%d = %s.%s" % (d, name, mname), "d%d.set_cache(LogCache('d%d'))" % (d, d),
                          "DECL(d%d, 'd%d', %r, OPIDX[0])" % (d, d, dflt is None))
                if kind in ("fn", "ds"):
                    self.default_of("d%d" % d, dflt)
                self.emit("OBS.append('ok')")
        self.emit("IFACES[%r] = (%s, %r)" % (name, name, [m[0] for m in members]))
        self.emit("OBS.append('ok')")

    def op_impl(self, op, k):
        _, ifaces, aliases, provided = op
        cname = "C%d" % k
        inames = ["I%d" % I for I in ifaces]
        single = len(aliases) == 1 and aliases[0] is not None   # alias=None means "no alias given"
        if len(ifaces) == 1 and k % 2 == 0:
            al = py(aliases[0]) if single else "[" + ", ".join(py(a) for a in aliases) + "]"
            deco = "%s.implementation(%s)" % (inames[0], al)
        else:
            al = py(aliases[0]) if single and k % 3 == 0 else "[" + ", ".join(py(a) for a in aliases) + "]"
            deco = "implements(%s, alias=%s)" % (", ".join(inames), al)
        body = []
        newexprs = []
        for n, (mname, i) in enumerate(provided):
            sp = self.impls[i]
            if i in self.expr:
                body.append("    %s = %s" % (mname, self.expr[i]))
            elif sp["k"] == "leaf":
                style = (k + n) % 3
                if style == 0:
                    body += leaf_def(mname, sp, [], "    ")
                elif style == 1:
                    body += leaf_def(mname, sp, ["staticmethod"], "    ")
                else:
                    body += leaf_def(mname, sp, ["staticmethod", "dataset"], "    ")
                newexprs.append((i, "%s.%s" % (cname, mname)))
            elif sp["k"] == "const" and not isinstance(dec(sp["v"]), (list, dict)):
                body.append("    %s = %s" % (mname, py(sp["v"])))
                newexprs.append((i, "%s.%s" % (cname, mname)))
            else:
                e = self.materialise(i)
                body.append("    %s = %s" % (mname, e))
        self.emit("_snap = SNAP(%s)" % ", ".join(inames) if inames else "_snap = SNAP()")
        self.emit("try:", "    @" + deco, "    class %s:" % cname, *["    " + b for b in body])
        if not body:
            self.emit("        pass")
        self.emit("    OBS.append('ok')", "    _ok = True", "except TypeError as _e:",
                  "    OBS.append(TYPEERR(_e%s))" % "".join(", " + n for n in inames), "    _ok = False")
        self.emit("CHECK_SNAP(_snap, SNAP(%s), _ok, %d)" % (", ".join(inames), k))
        self.pending_impl = newexprs

    def op_eval(self, op, k):
        _, d, o = op
        self.emit("OBS.append(EVAL(d%d, 'd%d', %s, %d))" % (d, d, py(o), k))

    def program(self):
        for n, sp in enumerate(self.case["disps"]):
            mp = "{" + ", ".join("%s: %s" % (py(f), py(t)) for f, t in sp["map"]) + "}"
            if sp.get("exc") is not None:
                row = EXC[sp["exc"]]
                self.emit(*row["pre"])
                self.emit(*xdisp_lines("dd%d" % n, n, sp["key"], mp, row, sp.get("form", "dataset")))
                continue
            if sp.get("ox") is not None:
                self.emit(*ox_lines("dd%d" % n, n, sp["ox"]))
                continue
            self.emit("@dataset", "def dd%d(x=Option(%r)):" % (n, sp["key"]), "    return %s.get(x, x)" % mp)
        cbs = set()
        for op in self.case["ops"]:
            if op[0] == "new" and op[4] is not None:
                cbs.add(op[4])
            if op[0] == "iface":
                cbs.update(m[4] for m in op[3] if m[4] is not None)
        for sp in self.impls:
            if sp["k"] == "sw" and sp.get("cb") is not None:
                cbs.add(sp["cb"])
        for c in sorted(cbs):
            self.emit("def cb%d(v):" % c, "    COUNT['cb%d'] = COUNT.get('cb%d', 0) + 1" % (c, c),
                      "    return ('cb', %d, v)" % c)
        for k, op in enumerate(self.case["ops"]):
            self.emit("# --- op %d: %s" % (k, json.dumps(op)))
            self.emit("OPIDX[0] = %d" % k)
            kind = op[0]
            if kind == "new":
                self.op_new(op, k)
            elif kind == "reg":
                self.op_reg(op)
            elif kind == "ovl":
                self.pending_expr = None
                self.op_ovl(op, k)
                # the name is bound only if the statement succeeded; the runner tells us
                i, newexpr = self.pending_expr
                if i not in self.expr:
                    self.emit("BOUND[%d] = OBS[-1] == 'ok'" % i)
                    self.expr_if_bound = (i, newexpr)
                    # codegen cannot branch on run-time results: materialise under a fresh name
                    # when the statement failed (see `fix_unbound`)
                    self.emit("if not BOUND[%d]:" % i)
                    sub = Gen(self.case)
                    sub.expr = dict(self.expr)
                    nm = sub.materialise(i, "    ")
                    self.emit(*sub.lines)
                    if nm != newexpr:
                        self.emit("    %s = %s" % (newexpr, nm))
                    self.expr[i] = newexpr
            elif kind == "setd":
                self.op_setd(op)
            elif kind == "iface":
                self.op_iface(op)
            elif kind == "impl":
                self.pending_impl = []
                self.op_impl(op, k)
                for i, e in self.pending_impl:
                    # bound only when the class statement succeeded; otherwise materialise
                    self.emit("if not _ok:")
                    sub = Gen(self.case)
                    sub.expr = dict(self.expr)
                    nm = sub.materialise(i, "    ")
                    self.emit(*sub.lines)
                    self.emit("    _x%d = %s" % (i, nm), "else:", "    _x%d = %s" % (i, e))
                    self.expr[i] = "_x%d" % i
            elif kind == "eval":
                self.op_eval(op, k)
            else:
                raise ValueError(kind)
        return "\n".join(self.lines) + "\n"


# --------------------------------------------------------------------------------------------
# the runner (executed in a subprocess with PYTHONPATH=REPO): builds and runs the programs


def ref_dispatch(case, disp, o):
    """the dispatch value computed without labrea: ('ok', value) | ('undet', error name)"""
    k = disp[0]
    if k == "missing":
        return ("ok", _Missing)
    if k == "key":
        return ("ok", o[disp[1]]) if disp[1] in o else ("undet", "KeyNotFoundError:" + disp[1])
    if k == "keyd":
        return ("ok", o.get(disp[1], dec(disp[2])))
    if k == "ds":
        sp = case["disps"][disp[1]]
        if sp.get("ox") is not None:      # an Option-based expression: its documented reading
            return ox_dispatch_ref(sp["ox"], o)[:2]
        if sp["key"] not in o:
            if sp.get("exc") is not None:      # the expression itself fails, in user code
                return ("undet", EXC[sp["exc"]]["errname"])
            return ("undet", "KeyNotFoundError:" + sp["key"])
        x = o[sp["key"]]
        for f, t in sp["map"]:
            if dec(f) == x and type(dec(f)) is type(x):
                return ("ok", dec(t))
        return ("ok", x)
    raise ValueError(disp)


class Ref:
    """model-independent reference: plain python dicts for the tables (hash equality for free),
    the property's own reading of register / overload / set_dispatch / interface / implementation"""

    def __init__(self, case):
        self.case = case
        self.ds = {}
        self.ifs = {}
        self.applied = 0
        self.expect = {}  # op index -> expected outcome class of a definition

    def advance(self, upto):
        while self.applied < upto:
            self.apply(self.applied, self.case["ops"][self.applied])
            self.applied += 1

    def new(self, d, disp, dflt, cb):
        self.ds[d] = {"disp": disp, "table": {}, "default": dflt, "cb": cb, "version": 0, "store": {},
                      "setd_ops": [], "iface": None}

    def apply(self, k, op):
        kind = op[0]
        if kind == "new":
            self.new(op[1], op[2], op[3], op[4])
        elif kind == "reg":
            r = self.ds[op[1]]
            r["table"][dec(op[2])] = op[3]
            r["version"] += 1
        elif kind == "ovl":
            if all(self.ds[d]["disp"][0] != "missing" for d, _ in op[1]):
                for d, als in op[1]:
                    for a in als:
                        self.ds[d]["table"][dec(a)] = op[2]
                    self.ds[d]["version"] += 1
                self.expect[k] = "ok"
            else:
                self.expect[k] = "ValueError"
        elif kind == "setd":
            r = self.ds[op[1]]
            r["disp"] = op[2]
            r["version"] += 1
            r["setd_ops"].append(k)
        elif kind == "iface":
            for name, d, mk, dflt, cb in (m[:5] for m in op[3]):
                if mk != "ext":
                    self.new(d, ["missing"], dflt, cb)
                r = self.ds[d]
                r["disp"] = op[2]
                r["version"] += 1
                r["setd_ops"].append(k)
                r["iface"] = op[1]
            self.ifs[op[1]] = {"disp": op[2], "members": [(m[0], m[1]) for m in op[3]]}
        elif kind == "impl":
            members = {}
            for I in op[1]:
                for name, d in self.ifs[I]["members"]:
                    members.setdefault(name, []).append(d)
            provided = dict((n, i) for n, i in op[3])
            unknown = [n for n in provided if n not in members]
            missing = [n for n, dl in members.items()
                       if n not in provided and any(self.ds[d]["default"] is None for d in dl)]
            if unknown or missing:
                self.expect[k] = "TypeError"
            else:
                self.expect[k] = "ok"
                for n, dl in members.items():
                    if n in provided:
                        for d in dl:
                            for a in op[2]:
                                self.ds[d]["table"][dec(a)] = provided[n]
                            self.ds[d]["version"] += 1

    def select(self, d, o):
        """-> (dispatch outcome, impl id | None, error name | None)"""
        r = self.ds[d]
        dv = ref_dispatch(self.case, r["disp"], o)
        if dv[0] == "undet":
            if r["default"] is None:
                return dv, None, dv[1]
            return dv, r["default"], None
        a = dv[1]
        if a is not _Missing and a in r["table"]:
            return dv, r["table"][a], None
        if r["default"] is None:
            return dv, None, "SwitchError"
        return dv, r["default"], None


RUNTIME_SRC = r'''
import sys
from labrea import dataset, abstractdataset, Option, interface, implements
from labrea import Overloaded, switch, coalesce, pipeline_step, case, WithOptions, WithDefaultOptions
import labrea.functions as F
from labrea.types import Value
from labrea.cache import MemoryCache
from labrea.application import FunctionApplication
from labrea.exceptions import EvaluationError, KeyNotFoundError, InsufficientInformationError
from labrea.conditional import SwitchError, CaseWhenError
from labrea.dataset import Dataset

_SRC = {}

def _cbwrong(v):
    return ("WRONG-CALLBACK", v)

def DEPTH():
    n, f = 0, sys._getframe()
    while f is not None:
        n, f = n + 1, f.f_back
    return n

class LogCache(MemoryCache):
    def __init__(self, name):
        super().__init__()
        self.name = name
        self.events = []
    def get(self, evaluatable, options):
        v = super().get(evaluatable, options)
        self.events.append(("get", evaluatable.fingerprint(options)))
        return v
    def set(self, evaluatable, options, value):
        self.events.append(("set", evaluatable.fingerprint(options)))
        super().set(evaluatable, options, value)

def ERRNAME(e):
    while e.__cause__ is not None:
        e = e.__cause__
    if isinstance(e, KeyNotFoundError):
        return "KeyNotFoundError:" + str(e.key)
    if isinstance(e, SwitchError):
        return "SwitchError"
    return type(e).__name__

def TYPEERR(e, *ifaces):
    msg = str(e)
    m = re.search(r"has a member named (\w+) to overload", msg)
    if m:
        return "TypeError:unknown:" + m.group(1)
    if msg.startswith("No implementation provided for "):
        # the message shows the member dataset's repr; report the member *name* it has in the interface
        for I in ifaces:
            for name, member in I.__dict__.items():
                if not name.startswith("_") and isinstance(member, Dataset) and \
                        msg == "No implementation provided for %r." % (member,):
                    return "TypeError:abstract:" + name
    return "TypeError:?:" + msg[:60]

def SNAP(*ifaces):
    out = []
    for I in ifaces:
        for name, member in sorted(I.__dict__.items()):
            if not name.startswith("_") and isinstance(member, Dataset):
                out.append((I.__name__, name, [(repr(a), id(v)) for a, v in member.overloads.lookup.items()]))
    return out
'''

RUNTIME_CODE = compile(RUNTIME_SRC, "<C07 runtime>", "exec")      # (compiled once: it is executed for every fresh object)


def run_case(case, want_src=False):
    """build and run one case on the labrea found on sys.path; returns the result dict"""
    g = Gen(case)
    src = g.program()
    ref = Ref(case)
    fails = []
    OBS, COUNT, BOUND, IFACES, OPIDX = [], {}, {}, {}, [0]
    ns = {"re": re}
    exec(RUNTIME_CODE, ns)
    ns.update(OBS=OBS, COUNT=COUNT, BOUND=BOUND, IFACES=IFACES, OPIDX=OPIDX)
    fresh_code = {}

    def fresh_value(i, o):
        """the implementation evaluated directly, on a freshly built object"""
        if i not in fresh_code:
            sub = Gen(case)
            name = sub.materialise(i)
            pre = []
            for sp in case["impls"]:
                if sp["k"] == "sw" and sp.get("cb") is not None:
                    c = sp["cb"]
                    pre += ["def cb%d(v):" % c, "    return ('cb', %d, v)" % c]
            fresh_code[i] = (compile("\n".join(pre + sub.lines) + "\n", "<fresh i%d>" % i, "exec"), name)
        code, name = fresh_code[i]
        fns = {"re": re}
        exec(RUNTIME_CODE, fns)
        fns["COUNT"] = {}
        exec(code, fns)
        try:
            return ("val", fns[name].evaluate(o))
        except Exception as e:  # noqa: BLE001
            return ("err", fns["ERRNAME"](e))

    def fail(k, kind, **detail):
        fails.append(dict(op=k, kind=kind, **detail))

    def EVAL(ds, name, o, k):
        ref.advance(k)
        d = int(name[1:])
        r = ref.ds[d]
        cache = ds.cache
        n0 = len(cache.events)
        cbname = None if r["cb"] is None else "cb%d" % r["cb"]
        c0 = COUNT.get(cbname, 0)
        try:
            v = ds.evaluate(o)
            err = None
        except Exception as e:  # noqa: BLE001
            v, err = None, ns["ERRNAME"](e)
            if not isinstance(e, ns["EvaluationError"]):
                # "fails ... if it is abstract": with an evaluation error, whatever made the dispatch fail
                fail(k, "bare-exception", observed=type(e).__name__, expected="an EvaluationError")
        ev = cache.events[n0:]
        dv, impl, selerr = ref.select(d, o)
        # expected cold value: callback applied to the selected implementation evaluated directly
        if selerr is not None:
            expected = ("err", selerr)
        else:
            fv = fresh_value(impl, o)
            if fv[0] == "val" and r["cb"] is not None:
                fv = ("val", ("cb", r["cb"], fv[1]))
            expected = fv
        if err is not None:
            obs = "err=" + err
            if expected != ("err", err):
                fail(k, "wrong-failure", observed=err, expected=repr(expected))
        else:
            hit = not any(e[0] == "set" for e in ev)
            fp = ev[0][1] if ev else b"[]"
            obs = "val=%s %s fp=%s" % (canon(v), "hit" if hit else "miss", canon_fp(fp))
            if not hit:
                if expected != ("val", v):
                    fail(k, "wrong-value", observed=canon(v), expected=repr(expected))
                r["store"][fp] = {"value": v, "dv": dv, "version": r["version"], "op": k}
                if cbname is not None and COUNT.get(cbname, 0) - c0 != 1:
                    fail(k, "callback-count", delta=COUNT.get(cbname, 0) - c0)
            else:
                ent = r["store"].get(fp)
                if ent is None:
                    fail(k, "hit-without-store", fp=canon_fp(fp))
                else:
                    if canon(ent["value"]) != canon(v):
                        fail(k, "hit-value-changed", observed=canon(v), stored=canon(ent["value"]))
                    same = ent["dv"][0] == dv[0] and (dv[0] == "undet" or ent["dv"][1] == dv[1])
                    if not same:
                        fail(k, "cross-dispatch", stored_for=repr(ent["dv"]), now=repr(dv), store_op=ent["op"],
                             setd_between=[s for s in r["setd_ops"] if ent["op"] < s < k], observed=canon(v),
                             expected=repr(expected))
                    elif ent["version"] == r["version"] and expected != ("val", v):
                        fail(k, "stale-without-change", observed=canon(v), expected=repr(expected))
                if cbname is not None and COUNT.get(cbname, 0) != c0:
                    fail(k, "callback-count", delta=COUNT.get(cbname, 0) - c0)
        # all members of the interface report the same alias
        if r["iface"] is not None:
            iname = "I%d" % r["iface"]
            if iname in IFACES:
                I, names = IFACES[iname]
                seen = []
                for mname in names:
                    try:
                        seen.append(("ok", getattr(I, mname).overloads.dispatch.evaluate(o)))
                    except Exception as e:  # noqa: BLE001
                        seen.append(("undet", ns["ERRNAME"](e)))
                want = ref_dispatch(case, ref.ifs[r["iface"]]["disp"], o)
                if any(canon_dv(s) != canon_dv(want) for s in seen):
                    fail(k, "iface-alias", seen=[canon_dv(s) for s in seen], want=canon_dv(want))
        return obs

    def CHECK_SNAP(before, after, ok, k):
        ref.advance(k + 1)
        if not ok and before != after:
            fail(k, "rejected-impl-registered", before=repr(before), after=repr(after))
        want = ref.expect.get(k)
        got = "ok" if ok else "TypeError"
        if want != got:
            fail(k, "impl-accept-mismatch", observed=got, expected=want)

    def DECL(ds, name, abstract, k):
        """the dataset says itself what it was declared to be, and holds the cache it was given"""
        if ds.is_abstract is not abstract or (repr(ds.default) == "MISSING") is not abstract:
            fail(k, "is-abstract", dataset=name, observed=ds.is_abstract, declared=abstract,
                 default=repr(ds.default)[:80])
        if getattr(ds.cache, "name", None) != name:
            fail(k, "wrong-cache", dataset=name, observed=repr(getattr(ds.cache, "name", type(ds.cache).__name__)))

    def DECOY(ds, abstract, k):
        """another dataset made by a reused factory: what the factory's own keywords say, no more"""
        try:
            got = ("val", ds.evaluate({}))
        except ns["EvaluationError"] as e:
            got = ("err", ns["ERRNAME"](e))
        if ds.is_abstract is not abstract or (got[0] == "err") is not abstract or \
                (got[0] == "val" and "'decoy'" not in repr(got[1])):
            fail(k, "reused-factory", observed_is_abstract=ds.is_abstract, factory_abstract=abstract,
                 evaluates_to=repr(got)[:120])

    ns.update(EVAL=EVAL, CHECK_SNAP=CHECK_SNAP, DECL=DECL, DECOY=DECOY)
    crash = None
    limit0 = sys.getrecursionlimit()
    try:
        exec(compile(src, "<case>", "exec"), ns)
    except Exception as e:  # noqa: BLE001
        crash = "%s: %s (at op %d)" % (type(e).__name__, str(e)[:200], OPIDX[0])
        OBS.append("HARNESS-CRASH " + crash)
    if sys.getrecursionlimit() != limit0 and not crash:
        crash = "recursion limit left at %d (was %d)" % (sys.getrecursionlimit(), limit0)
        sys.setrecursionlimit(limit0)
    # definitions whose outcome the reference predicts
    ref.advance(len(case["ops"]))
    res = {"obs": " | ".join(OBS), "fails": fails}
    if crash:
        res["crash"] = crash
    if want_src:
        res["src"] = src
    return res


def canon_dv(dv):
    return "undet" if dv[0] == "undet" else canon(dv[1] if dv[1] is not _Missing else _Missing())


# --------------------------------------------------------------------------------------------
# direct programs: the failing dispatch expression at the positions the model's language cannot name

XPOS = ["dataset", "dataset-setd", "overloaded", "switch", "iface", "in-coalesce", "in-switch-default",
        "as-switch-dispatch", "in-dataset-arg", "nested-impl"]
XTRIG = ["absent", "value"]


def xtarget_lines(k, pos, dflt):
    """lines defining T<k>: the failing dispatch expression dd0 at position `pos`"""
    T, inner = "T%d" % k, "inner%d" % k
    ls = []
    if pos in ("overloaded", "switch"):
        ctor = "Overloaded" if pos == "overloaded" else "switch"
        ls += ["def _dflt%d(a=Option('A', 5)):" % k, "    return ('dflt', a)"]
        ls += ["%s = %s(dd0, {'x': Value(('ix',))}%s)"
               % (T, ctor, ", FunctionApplication.lift(_dflt%d)" % k if dflt else "")]
        return ls
    if pos == "iface":
        return ["@interface(dd0)", "class I%d:" % k, "    a: int", "    @dataset", "    def b(p=Option('A', 5)):",
                "        return ('dflt', p)",
                "@I%d.implementation('x')" % k, "class C%d:" % k, "    a = ('ix',)", "    b = ('ix',)",
                "%s = I%d.%s" % (T, k, "b" if dflt else "a")]
    kw = "dispatch='K'" if pos == "dataset-setd" else "dispatch=dd0"
    if dflt:
        ls += ["@dataset(%s)" % kw, "def %s(a=Option('A', 5)):" % inner, "    return ('dflt', a)"]
    else:
        ls += ["@abstractdataset(%s)" % kw, "def %s():" % inner, "    pass"]
    ls += ["@%s.overload('x')" % inner, "def %s_x():" % inner, "    return ('ix',)"]
    if pos == "dataset-setd":
        ls += ["%s.set_dispatch(dd0)" % inner]
    if pos in ("dataset", "dataset-setd"):
        ls += ["%s = %s" % (T, inner)]
    elif pos == "in-coalesce":
        ls += ["%s = coalesce(%s, Value('fallback'))" % (T, inner)]
    elif pos == "in-switch-default":
        ls += ["%s = switch('K0', {'a': Value('never')}, %s)" % (T, inner)]
    elif pos == "as-switch-dispatch":
        ls += ["%s = switch(%s, {('ix',): Value('sel-x'), ('dflt', 5): Value('sel-5'), "
               "('dflt', 7): Value('sel-7')}, Value('outer-default'))" % (T, inner)]
    elif pos == "in-dataset-arg":
        ls += ["@dataset", "def %s(v=%s):" % (T, inner), "    return ('wrap', v)"]
    elif pos == "nested-impl":
        ls += ["@dataset(dispatch='K0')", "def %s():" % T, "    return ('outer-dflt',)",
               "%s.register('n', %s)" % (T, inner)]
    else:
        raise ValueError(pos)
    return ls


def xprogram(xc):
    """-> (source defining T0..Tn, [(target, label, options, expected)]) for the direct case xc =
    {"exc": row id, "form": XFORMS, "trig": XTRIG, "targets": [[XPOS, with default?, all evaluations?]...]};
    every target dispatches on the one failing expression dd0 (option QX).
    expected = ["val", canonical value] | ["err", root error name] (then it must be an EvaluationError)"""
    row, trig = EXC[xc["exc"]], xc["trig"]
    ls = list(row["pre"]) + xdisp_lines("dd0", 0, "QX", "{'r': 'x'}", row, xc["form"], trig)
    trig_o = {} if trig == "absent" else {"QX": "boom"}
    evals = []
    for k, (pos, dflt, full) in enumerate(xc["targets"]):
        ls += xtarget_lines(k, pos, dflt)
        base = {"K0": "n"} if pos == "nested-impl" else {}
        # the selection, read off the property: registered -> 'ix'; otherwise the default, or a failure
        d5, d7 = (("dflt", 5), ("dflt", 7)) if dflt else (None, None)
        sel = [("dispatch-fails", trig_o, d5, row["errname"])]
        if full:
            sel = [("registered", {"QX": "x"}, ("ix",), None), ("registered-mapped", {"QX": "r"}, ("ix",), None),
                   ("unregistered", {"QX": "u"}, d5, "SwitchError")] + sel + \
                  [("dispatch-fails-again", trig_o, d5, row["errname"]),
                   ("dispatch-fails-A", dict(trig_o, A=7), d7, row["errname"])]
            if trig == "value":
                sel.append(("dispatch-key-absent", {}, d5, "KeyNotFoundError:QX"))
        for label, o, v, err in sel:
            if pos == "in-coalesce":
                exp = ["val", canon(v if v is not None else "fallback")]
            elif pos == "as-switch-dispatch":
                exp = ["val", canon({("ix",): "sel-x", ("dflt", 5): "sel-5", ("dflt", 7): "sel-7",
                                     None: "outer-default"}[v])]
            elif v is None:
                exp = ["err", err]
            else:
                exp = ["val", canon(("wrap", v) if pos == "in-dataset-arg" else v)]
            evals.append((k, label, dict(base, **o), exp))
    return "\n".join(ls) + "\n", evals


def run_xcase(xc, want_src=False):
    src, evals = xprogram(xc)
    ns = {"re": re}
    exec(RUNTIME_CODE, ns)
    limit0 = sys.getrecursionlimit()
    fails, obs, outs = [], [], []
    crash = None
    try:
        exec(compile(src, "<direct case>", "exec"), ns)
    except Exception as e:  # noqa: BLE001
        crash = "%s: %s (building the program)" % (type(e).__name__, str(e)[:200])
    if not crash:
        for n, (k, label, o, exp) in enumerate(evals):
            where = dict(op=n, target=k, pos=xc["targets"][k][0], dflt=xc["targets"][k][1], eval=label, options=o)
            try:
                got = ["val", canon(ns["T%d" % k].evaluate(o))]
            except Exception as e:  # noqa: BLE001
                got = ["err", ns["ERRNAME"](e)]
                if not isinstance(e, ns["EvaluationError"]):
                    fails.append(dict(where, kind="bare-exception", observed=type(e).__name__,
                                      expected="an EvaluationError" if exp[0] == "err" else exp))
            if got != exp:
                kind = "wrong-value" if got[0] == "val" else "wrong-failure"
                fails.append(dict(where, kind=kind, observed=got, expected=exp))
            obs.append("T%d %s:%s=%s" % (k, label, got[0], got[1]))
            outs.append([k, label, got[0]])
        if sys.getrecursionlimit() != limit0:
            crash = "recursion limit left at %d (was %d)" % (sys.getrecursionlimit(), limit0)
            sys.setrecursionlimit(limit0)
    res = {"obs": " | ".join(obs), "fails": fails, "outs": outs}
    if crash:
        res["crash"] = crash
        res["obs"] = "HARNESS-CRASH " + crash
    if want_src:
        res["src"] = src
        res["evals"] = [list(e) for e in evals]
    return res


PROBES = [
    # (what, reading "the last explicit value wins", program; OUT is what is observed)
    ("options={} on a factory that has options: dataset(dispatch='K', options={'K': 'x'})(f, options={}) under {'K': 'y'}",
     "no preset options: 'K' is 'y', unregistered -> the default implementation",
     ["ds = dataset(dispatch='K', options={'K': 'x'})(_f, options={})", "ds.register('x', Value(('ix',)))",
      "OUT = ds({'K': 'y'})"]),
    ("default_options={} on a factory that has default options: dataset(dispatch='K', default_options={'K': 'x'})"
     "(f, default_options={}) under {}",
     "no default options: 'K' cannot be determined -> the default implementation",
     ["ds = dataset(dispatch='K', default_options={'K': 'x'})(_f, default_options={})",
      "ds.register('x', Value(('ix',)))", "OUT = ds({})"]),
    ("dispatch='' (an empty option key): dataset(dispatch='')(f).overload('x')",
     "a dataset dispatching on the option key ''",
     ["ds = dataset(dispatch='')(_f)", "OUT = repr(ds.overloads.dispatch)", "ds.overload('x')"]),
    ("defaults={} after defaults={'a': ...} (accumulating keyword): dataset(defaults={'a': Option('A', 5)})(g, defaults={})",
     "unspecified: defaults (like effects, where) accumulate by design; an erasing reading would fail with a TypeError",
     ["ds = dataset(defaults={'a': Option('A', 5)})(_g, defaults={})", "OUT = ds({})"]),
]


OX_PROBES = [
    # deviations of the unchanged labrea from the documented reading that the Option-dispatch family met; they are
    # kept out of the violation oracle (see oform_case / "nofp") and recorded here on every run
    ("F19 inside C07: @dataset(dispatch=Option('K', 'fast', domain=['fast', 'exact'])) with 'fast' registered, "
     "evaluated under {} and then under {'K': 'bogus'}",
     "{'K': 'bogus'} violates the domain: the dispatch cannot be determined -> the default implementation ('dflt',); "
     "('ix',) is the entry stored under {} (a dispatch that FAILS contributes no keys to the fingerprint: known "
     "finding F19 of C01/C03; here a value stored for one dispatch value is returned for another)",
     ["ds = dataset(dispatch=Option('K', 'fast', domain=['fast', 'exact']))(_f)", "ds.register('fast', Value(('ix',)))",
      "OUT = (ds({}), ds({'K': 'bogus'}), ds.fingerprint({}), ds.fingerprint({'K': 'bogus'}))"]),
    ("coalesce as dispatch, first member an Option whose default is outside its domain: "
     "dataset(dispatch=coalesce(Option('K', 'auto', domain=['fast', 'exact']), Option('K2'))) with 'fast' and 'exact' "
     "registered, evaluated under {'K2': 'fast'} and then under {'K2': 'exact'}",
     "the first member cannot be evaluated, the value is K2's: ('ix',) then ('iy',), fingerprints naming K2; labrea's "
     "Coalesce.keys() returns the keys of the first member that VALIDATES, and Option.validate / Option.keys accept an "
     "absent key whose default is outside the domain (evaluate rejects it): the fingerprint is [] for both",
     ["ds = dataset(dispatch=coalesce(Option('K', 'auto', domain=['fast', 'exact']), Option('K2')))(_f)",
      "ds.register('fast', Value(('ix',)))", "ds.register('exact', Value(('iy',)))",
      "OUT = (ds({'K2': 'fast'}), ds({'K2': 'exact'}), ds.fingerprint({'K2': 'fast'}), ds.fingerprint({'K2': 'exact'}))"]),
    ("Option('K', 'auto', domain=['fast', 'exact']) under {}: validate / keys / evaluate",
     "evaluate fails (the default is outside the domain); validate and keys would have to fail with it",
     ["o = Option('K', 'auto', domain=['fast', 'exact'])", "OUT = [o.validate({}), sorted(o.keys({}))]", "o.evaluate({})"]),
]


def run_probe(which="factory-keywords"):
    """combinations that are NOT in the violation oracle: what labrea does with them is recorded in the
    evidence next to the reading the spelling table / the Option-dispatch family uses elsewhere"""
    out = []
    for what, reading, prog in (OX_PROBES if which == "option-dispatch" else PROBES):
        ns = {"re": re}
        exec(RUNTIME_CODE, ns)
        exec("def _f():\n    return ('dflt',)\ndef _g(a):\n    return ('dflt', a)\n", ns)
        try:
            exec("\n".join(prog) + "\n", ns)
            seen = repr(ns.get("OUT"))
        except Exception as e:  # noqa: BLE001
            seen = "%r, then %s: %s" % (ns.get("OUT"), type(e).__name__, str(e)[:80])
        if which == "option-dispatch":
            out.append({"program": what, "documented_reading": reading, "observed": seen})
        else:
            out.append({"spelling": what, "last_explicit_value_wins_reading": reading, "observed": seen})
    return {"obs": "", "fails": [], "probe": out}


def runner_main():
    want_src = "--src" in sys.argv
    for line in sys.stdin:
        line = line.strip()
        if not line:
            continue
        case = json.loads(line)
        try:
            if "probe" in case:
                res = run_probe(case["probe"])
            else:
                res = run_xcase(case["x"], want_src) if "x" in case else run_case(case, want_src)
        except Exception as e:  # noqa: BLE001
            res = {"obs": "HARNESS-CRASH %s: %s" % (type(e).__name__, str(e)[:300]), "fails": [],
                   "crash": "%s: %s" % (type(e).__name__, str(e)[:300])}
        sys.stdout.write(json.dumps(res, default=repr) + "\n")
        sys.stdout.flush()


def run_impl(cases, want_src=False):
    """run the cases on the labrea in REPO (subprocess); one result dict per case"""
    if not cases:
        return []
    # (only what the runner needs: confectioner copies the whole environment at every resolve() of an option value)
    env = {k_: v for k_, v in os.environ.items()
           if k_ in ("PATH", "HOME", "LANG", "TMPDIR", "USER") or k_.startswith(("VERIF_", "PYTHON", "LC_"))}
    env["PYTHONPATH"] = str(REPO) + os.pathsep + str(Path(__file__).resolve().parent.parent)
    env["PYTHONDONTWRITEBYTECODE"] = "1"
    cmd = [PY, "-B", str(Path(__file__).resolve()), "--runner"] + (["--src"] if want_src else [])
    r = subprocess.run(cmd, input="\n".join(json.dumps(c) for c in cases) + "\n", capture_output=True,
                       text=True, env=env, timeout=3000)
    if r.returncode != 0:
        raise Infra("C07 runner failed: " + r.stderr[-1500:])
    out = [json.loads(l) for l in r.stdout.splitlines() if l.strip()]
    if len(out) != len(cases):
        raise Infra("C07 runner produced %d results for %d cases: %s" % (len(out), len(cases), r.stderr[-800:]))
    return out


def run_impl_chunks(cases, nproc):
    """run_impl on `nproc` contiguous chunks at once (results in the order of `cases`)"""
    from concurrent.futures import ThreadPoolExecutor
    size = max(1, -(-len(cases) // nproc))
    chunks = [cases[i:i + size] for i in range(0, len(cases), size)]
    with ThreadPoolExecutor(max_workers=max(1, len(chunks))) as pool:
        return [r for rs in pool.map(run_impl, chunks) for r in rs]


def run_model(cases):
    lines = run_driver("drv_iface", [json.dumps(to_model(c)) for c in cases])
    if len(lines) != len(cases):
        raise Infra("drv_iface produced %d lines for %d cases" % (len(lines), len(cases)))
    # the model's "the dispatch evaluation failed" is a missing key; a failing dispatch expression fails
    # with its own root cause instead (nothing else reads that key: see exc_model_case)
    out = []
    for c, line in zip(cases, lines):
        for sp in c["disps"]:
            if sp.get("exc") is not None:
                line = line.replace("err=KeyNotFoundError:%s" % sp["key"], "err=" + EXC[sp["exc"]]["errname"])
        if has_ox(c):
            line = ox_fix_line(c, line)
        out.append(line)
    return out


# --------------------------------------------------------------------------------------------
# generation

ALIASES = ["x", "y", "z", 1, True, 0, None, ("t", 1), ("t", True)]
KVALS = ["x", "y", "z", "u", 1, True, 0, False, None]
QVALS = ["p", "r", "x", "y", 1, "u"]
DISPS = [{"key": "Q", "map": [["p", {"t": ["t", 1]}], ["r", "x"]]}]
MEMBER_NAMES = ["a", "b", "c", "e", "f"]


class CaseGen:
    def __init__(self, rng, allow_trigger=False):
        self.rng = rng
        self.allow_trigger = allow_trigger
        self.impls = []
        self.ops = []
        self.ds = {}      # d -> dict(disp, abstract, evaluated, member)
        self.ifs = {}     # I -> list of (name, d, abstract)
        self.used_default = set()

    # ---- implementations
    def leaf(self, tag=None):
        r = self.rng
        reads = r.choice([[], [], [["A", None]], [["B", {"d": 5}]], [["A", None], ["B", {"d": 5}]],
                          [["A", {"d": "a0"}]]])
        return {"tag": tag or "i%d" % len(self.impls), "reads": reads}

    def new_impl(self, kinds=("leaf", "leaf", "leaf", "const", "opt", "sw")):
        r = self.rng
        k = r.choice(kinds)
        n = len(self.impls)
        if k == "leaf":
            sp = dict(k="leaf", **self.leaf())
        elif k == "const":
            # (falsy constants included: a member / implementation whose value is None, 0, False or "" is a value like
            # any other)
            sp = {"k": "const", "v": r.choice(["c%d" % n, n, {"t": ["k", n]}, None, 0, False, ""])}
        elif k == "opt":
            sp = {"k": "opt", "key": r.choice(["A", "B"]), "d": r.choice([None, {"d": "o%d" % n}])}
        else:
            tbl = [[a, self.leaf("n%d_%d" % (n, j))] for j, a in enumerate(r.sample(["p", "q", 1], r.randint(1, 2)))]
            sp = {"k": "sw", "key": "K2", "tbl": tbl,
                  "dflt": r.choice([None, self.leaf("n%d_d" % n)]), "cb": r.choice([None, 50 + n])}
        self.impls.append(sp)
        return n

    def some_impl(self):
        if self.impls and self.rng.random() < 0.35:
            return self.rng.randrange(len(self.impls))
        return self.new_impl()

    # ---- pieces
    def dispatch(self):
        r = self.rng
        x = r.random()
        if x < 0.55:
            return ["key", "K"]
        if x < 0.75:
            return ["keyd", "K", r.choice(["x", "y", 1, "u"])]
        if x < 0.92:
            return ["ds", 0]
        return ["missing"]

    def aliases(self, n=None):
        r = self.rng
        n = n or r.choice([1, 1, 1, 2, 3])
        return [enc(a) for a in r.sample(ALIASES, n)]

    def opts(self, d):
        r = self.rng
        o = {}
        disp = self.ds[d]["disp"]
        if disp[0] in ("key", "keyd"):
            if r.random() < 0.8:
                o[disp[1]] = r.choice(KVALS)
        elif disp[0] == "ds":
            if r.random() < 0.8:
                o["Q"] = r.choice(QVALS)
        if r.random() < 0.2:
            o["K"] = r.choice(KVALS)
        if r.random() < 0.55:
            o["A"] = r.choice([1, 2, "a", [1, 2]])
        if r.random() < 0.3:
            o["B"] = r.choice([1, "b"])
        if r.random() < 0.5:
            o["K2"] = r.choice(["p", "q", "zz", 1])
        return o

    def op_new(self):
        r = self.rng
        d = len(self.ds)
        disp = self.dispatch()
        abstract = r.random() < 0.3
        dflt = None if abstract else self.new_impl(("leaf", "leaf", "leaf", "opt", "const"))
        cb = r.choice([None, None, d + 1])
        self.ops.append(["new", d, disp, dflt, cb])
        self.ds[d] = {"disp": disp, "abstract": abstract, "evaluated": False, "member": False}

    def op_reg(self):
        d = self.rng.choice(list(self.ds))
        self.ops.append(["reg", d, self.aliases(1)[0], self.some_impl()])

    def op_ovl(self):
        r = self.rng
        ds = list(self.ds)
        n = 1 if r.random() < 0.65 or len(ds) < 2 else 2
        targets = [[d, self.aliases()] for d in r.sample(ds, n)]
        self.ops.append(["ovl", targets, self.some_impl()])

    def op_setd(self):
        cands = [d for d, s in self.ds.items() if not s["member"] and (self.allow_trigger or not s["evaluated"])]
        if not cands:
            return self.op_reg()
        d = self.rng.choice(cands)
        disp = self.dispatch()
        if disp[0] == "missing":
            disp = ["key", "K2"]
        self.ops.append(["setd", d, disp])
        self.ds[d]["disp"] = disp

    def op_iface(self):
        r = self.rng
        I = len(self.ifs)
        disp = r.choice([["key", "K"], ["key", "K2"], ["keyd", "K", "x"], ["ds", 0]])
        members = []
        names = r.sample(MEMBER_NAMES, r.randint(1, 4))
        ext = [d for d, s in self.ds.items() if not s["member"] and (self.allow_trigger or not s["evaluated"])]
        for name in names:
            kind = r.choice(["ann", "abs", "fn", "ds", "val", "ext"])
            if kind == "ext":
                if not ext:
                    kind = "fn"
                else:
                    d = ext.pop(r.randrange(len(ext)))
                    members.append([name, d, "ext", None, None])
                    self.ds[d].update(member=True, disp=disp)
                    continue
            d = len(self.ds)
            dflt, cb = None, None
            if kind in ("fn", "ds"):
                dflt = self.new_impl(("leaf",))
                cb = r.choice([None, d + 1]) if kind == "ds" else None
            elif kind == "val":
                dflt = self.new_impl(("const", "opt"))
            members.append([name, d, kind, dflt, cb])
            self.ds[d] = {"disp": disp, "abstract": dflt is None, "evaluated": False, "member": True}
        self.ops.append(["iface", I, disp, members])
        self.ifs[I] = [(m[0], m[1]) for m in members]

    def op_impl(self):
        r = self.rng
        if not self.ifs:
            return self.op_iface()
        n = 1 if r.random() < 0.7 or len(self.ifs) < 2 else 2
        ifaces = r.sample(list(self.ifs), n)
        names = {}
        for I in ifaces:
            for name, d in self.ifs[I]:
                names.setdefault(name, []).append(d)
        mode = r.choice(["good", "good", "good", "missing", "unknown", "partial"])
        provided = []
        for name, dl in names.items():
            abstract = any(self.ds[d]["abstract"] for d in dl)
            if abstract or r.random() < 0.5:
                provided.append([name, self.some_impl()])
        if mode == "missing":
            abstract_names = [n_ for n_, dl in names.items() if any(self.ds[d]["abstract"] for d in dl)]
            if abstract_names:
                drop = r.choice(abstract_names)
                provided = [p for p in provided if p[0] != drop]
        elif mode == "unknown":
            provided.insert(r.randint(0, len(provided)), ["zz", self.some_impl()])
        elif mode == "partial":
            provided = [p for p in provided if r.random() < 0.6]
        self.ops.append(["impl", ifaces, self.aliases(), provided])

    def op_eval(self):
        r = self.rng
        d = r.choice(list(self.ds))
        self.ops.append(["eval", d, self.opts(d)])
        self.ds[d]["evaluated"] = True

    def op_eval_pair(self):
        """evaluate the same dataset twice around a registration / with a flipped dispatch value"""
        r = self.rng
        d = r.choice(list(self.ds))
        o = self.opts(d)
        self.ops.append(["eval", d, o])
        self.ds[d]["evaluated"] = True
        x = r.random()
        if x < 0.4:
            self.ops.append(["reg", d, self.aliases(1)[0], self.some_impl()])
            self.ops.append(["eval", d, o])
        elif x < 0.8:
            o2 = dict(o)
            disp = self.ds[d]["disp"]
            key = disp[1] if disp[0] in ("key", "keyd") else "Q"
            o2[key] = r.choice(KVALS if key != "Q" else QVALS)
            if r.random() < 0.3:
                o2.pop(key)
            self.ops.append(["eval", d, o2])
        else:
            self.ops.append(["eval", d, o])

    def build(self, nops):
        r = self.rng
        for _ in range(r.randint(1, 3)):
            self.op_new()
        if r.random() < 0.5:
            self.op_iface()
        choices = ([self.op_eval] * 30 + [self.op_eval_pair] * 12 + [self.op_reg] * 14 + [self.op_ovl] * 14 +
                   [self.op_impl] * 12 + [self.op_setd] * 5 + [self.op_new] * 4 + [self.op_iface] * 4)
        guard = 0
        target = len(self.ops) + nops
        while len(self.ops) < target and guard < 100:
            guard += 1
            if len(self.ifs) >= 2:
                c = r.choice([c_ for c_ in choices if c_ != self.op_iface])
            else:
                c = r.choice(choices)
            c()
        return {"impls": self.impls, "disps": DISPS, "ops": self.ops}


def L(tag, reads=()):
    return {"k": "leaf", "tag": tag, "reads": [list(x) for x in reads]}


def corpus():
    """hand-written cases: everything the property text names"""
    cs = []
    A = ("A", None)
    # 1 option-key dispatch: registered / unregistered / undetermined, default and abstract, callback
    cs.append({"impls": [L("dflt", [A]), L("ix"), L("iy", [("B", {"d": 5})])], "disps": DISPS, "ops": [
        ["new", 0, ["key", "K"], 0, 1], ["new", 1, ["key", "K"], None, 2],
        ["ovl", [[0, ["x"]]], 1], ["reg", 0, "y", 2], ["reg", 1, "x", 1],
        ["eval", 0, {"K": "x"}], ["eval", 0, {"K": "y"}], ["eval", 0, {"K": "z", "A": 1}], ["eval", 0, {"A": 1}],
        ["eval", 0, {}], ["eval", 1, {"K": "x"}], ["eval", 1, {"K": "z"}], ["eval", 1, {}],
        ["eval", 0, {"K": "y", "B": 7}], ["eval", 0, {"K": "x"}]]})
    # 2 late registration, re-registration, stored entries
    cs.append({"impls": [L("dflt"), L("i1"), L("i2"), L("i3", [A])], "disps": DISPS, "ops": [
        ["new", 0, ["key", "K"], 0, None], ["eval", 0, {"K": "x"}], ["reg", 0, "x", 1], ["eval", 0, {"K": "x"}],
        ["eval", 0, {"K": "x", "A": 1}], ["reg", 0, "x", 2], ["eval", 0, {"K": "x", "A": 1}],
        ["eval", 0, {"K": "x", "A": 2}], ["reg", 0, "x", 3], ["eval", 0, {"K": "x", "A": 3}],
        ["eval", 0, {"K": "x", "A": 2}], ["eval", 0, {"K": "x"}]]})
    # 3 cross dispatch: implementations that read nothing, flip the dispatch value on one cache
    cs.append({"impls": [L("dflt"), L("ia"), L("ib")], "disps": DISPS, "ops": [
        ["new", 0, ["key", "K"], 0, 3], ["reg", 0, "a", 1], ["reg", 0, "b", 2],
        ["eval", 0, {"K": "a"}], ["eval", 0, {"K": "b"}], ["eval", 0, {"K": "a"}], ["eval", 0, {"K": "c"}],
        ["eval", 0, {}], ["eval", 0, {"K": "b"}], ["eval", 0, {"K": "c"}]]})
    # 4 Option-with-default dispatch and dataset dispatch, tuple aliases, True == 1
    cs.append({"impls": [L("dflt"), L("i1"), L("i2"), L("i3")], "disps": DISPS, "ops": [
        ["new", 0, ["keyd", "K", "x"], 0, None], ["new", 1, ["ds", 0], None, 4],
        ["reg", 0, "x", 1], ["reg", 0, 1, 2], ["reg", 1, {"t": ["t", True]}, 3], ["reg", 1, "x", 1],
        ["eval", 0, {}], ["eval", 0, {"K": "x"}], ["eval", 0, {"K": True}], ["eval", 0, {"K": 1}],
        ["eval", 0, {"K": "y"}], ["eval", 1, {"Q": "p"}], ["eval", 1, {"Q": "r"}], ["eval", 1, {"Q": "x"}],
        ["eval", 1, {"Q": "zz"}], ["eval", 1, {}], ["reg", 0, True, 3], ["eval", 0, {"K": 1}],
        ["eval", 0, {"K": False}], ["reg", 0, 0, 1], ["eval", 0, {"K": False}]]})
    # 5 list aliases, stacked overloads, an alias on several datasets, no-dispatch ValueError, set_dispatch
    cs.append({"impls": [L("d0"), L("d1"), L("st", [A]), L("i3"), L("d2")], "disps": DISPS, "ops": [
        ["new", 0, ["key", "K"], 0, None], ["new", 1, ["key", "K2"], 1, 5], ["new", 2, ["missing"], 4, None],
        ["ovl", [[1, ["y", "x"]], [0, ["x"]]], 2], ["ovl", [[2, ["x"]]], 3], ["ovl", [[0, ["q"]], [2, ["q"]]], 3],
        ["eval", 2, {"K": "x"}], ["setd", 2, ["key", "K"]], ["ovl", [[2, ["x", 1]]], 3], ["reg", 2, "y", 2],
        ["eval", 0, {"K": "x", "A": 1}], ["eval", 1, {"K2": "x", "A": 1}], ["eval", 1, {"K2": "y", "A": 2}],
        ["eval", 0, {"K": "q"}], ["eval", 1, {"K2": "z"}]]})
    cs[-1]["ops"].remove(["eval", 2, {"K": "x"}])   # keep the main corpus free of the F24 trigger
    cs[-1]["ops"] += [["eval", 2, {"K": "x"}], ["eval", 2, {"K": True}], ["eval", 2, {"K": "y", "A": 1}],
                      ["eval", 2, {}]]
    # 6 nested overloads (a dispatching dataset as an implementation), Option / Value implementations
    cs.append({"impls": [L("dflt"), {"k": "sw", "key": "K2", "tbl": [["p", L("np")], ["q", L("nq", [A])]],
                                     "dflt": L("nd"), "cb": 51},
                         {"k": "sw", "key": "K2", "tbl": [["p", L("mp")]], "dflt": None, "cb": None},
                         {"k": "opt", "key": "A", "d": None}, {"k": "const", "v": {"t": ["v", 1]}}],
               "disps": DISPS, "ops": [
        ["new", 0, ["key", "K"], 0, 6], ["ovl", [[0, ["n"]]], 1], ["reg", 0, "m", 2], ["reg", 0, "o", 3],
        ["reg", 0, "v", 4], ["eval", 0, {"K": "n", "K2": "p"}], ["eval", 0, {"K": "n", "K2": "q", "A": 1}],
        ["eval", 0, {"K": "n", "K2": "q"}], ["eval", 0, {"K": "n"}], ["eval", 0, {"K": "n", "K2": "zz"}],
        ["eval", 0, {"K": "m", "K2": "p"}], ["eval", 0, {"K": "m", "K2": "zz"}], ["eval", 0, {"K": "m"}],
        ["eval", 0, {"K": "o", "A": 9}], ["eval", 0, {"K": "o"}], ["eval", 0, {"K": "v"}],
        ["eval", 0, {"K": "n", "K2": "p"}]]})
    # 7 interface: every member kind, good / missing / unknown / multi-interface implementations
    cs.append({"impls": [L("c_d", [A]), L("d_d"), {"k": "opt", "key": "E", "d": {"d": "e"}}, {"k": "const", "v": "f"},
                         L("g_a"), L("g_b"), L("o_c"), L("m_a"), L("m_b"), L("x1"), L("x2"), L("ext_d")],
               "disps": DISPS, "ops": [
        ["new", 9, ["missing"], 11, 9],
        ["iface", 0, ["key", "K"], [["a", 0, "ann", None, None], ["b", 1, "abs", None, None],
                                    ["c", 2, "fn", 0, None], ["e", 3, "ds", 1, 4], ["f", 4, "val", 2, None],
                                    ["g", 9, "ext", None, None]]],
        ["iface", 1, ["key", "K2"], [["a", 5, "ann", None, None], ["h", 6, "val", 3, None]]],
        ["eval", 0, {}], ["eval", 2, {"A": 1}], ["eval", 3, {}], ["eval", 4, {}], ["eval", 9, {}],
        ["impl", [0], ["GOOD"], [["a", 4], ["b", 5]]],
        ["eval", 0, {"K": "GOOD"}], ["eval", 1, {"K": "GOOD"}], ["eval", 2, {"K": "GOOD", "A": 1}],
        ["eval", 3, {"K": "GOOD"}], ["eval", 4, {"K": "GOOD"}], ["eval", 9, {"K": "GOOD"}],
        ["impl", [0], ["BAD"], [["a", 9]]], ["eval", 0, {"K": "BAD"}],
        ["impl", [0], ["BAD"], [["b", 9]]], ["eval", 1, {"K": "BAD"}],
        ["impl", [0], ["BAD"], []], ["impl", [0], ["BAD"], [["a", 9], ["b", 10], ["zz", 9]]],
        ["eval", 0, {"K": "BAD"}], ["eval", 1, {"K": "BAD"}],
        ["impl", [0], ["OVR", 1], [["a", 4], ["b", 5], ["c", 6]]],
        ["eval", 2, {"K": "OVR"}], ["eval", 2, {"K": True}], ["eval", 3, {"K": "OVR"}],
        ["impl", [0, 1], ["MULTI"], [["a", 7], ["b", 8]]],
        ["eval", 0, {"K": "MULTI"}], ["eval", 5, {"K2": "MULTI"}], ["eval", 5, {"K": "MULTI"}],
        ["eval", 6, {"K2": "MULTI"}], ["eval", 0, {"K": "GOOD"}], ["eval", 5, {}]]})
    # 8 an alias first bound by an implementation, then overloaded directly on the member, and a
    #   rejected implementation in between must leave both in place
    cs.append({"impls": [L("a1"), L("a2"), L("b1"), L("dfl")], "disps": DISPS, "ops": [
        ["iface", 0, ["keyd", "K", "k0"], [["a", 0, "ann", None, None], ["b", 1, "fn", 3, None]]],
        ["impl", [0], ["k0"], [["a", 0]]], ["eval", 0, {}], ["eval", 1, {}],
        ["ovl", [[0, ["k1"]], [1, ["k1"]]], 1], ["impl", [0], ["k1", "k2"], [["b", 2]]],
        ["eval", 0, {"K": "k1"}], ["eval", 1, {"K": "k1"}], ["eval", 0, {"K": "k2"}], ["eval", 1, {"K": "k2"}],
        ["impl", [0], ["k3"], [["a", 1], ["b", 2]]], ["eval", 0, {"K": "k3"}], ["eval", 1, {"K": "k3"}],
        ["eval", 1, {"K": "k1"}]]})
    # 9 dispatch values whose TEXT coincides but which are different values (1 / "1", True / "True", None / "None") on
    #   one long-lived cache: each selects its own implementation (or the default), whatever was evaluated before
    cs.append({"impls": [L("dflt"), L("int1"), L("str1"), L("strTrue")], "disps": DISPS, "ops": [
        ["new", 0, ["key", "K"], 0, None], ["reg", 0, 1, 1], ["reg", 0, "1", 2], ["reg", 0, "True", 3],
        ["eval", 0, {"K": 1}], ["eval", 0, {"K": "1"}], ["eval", 0, {"K": 1}], ["eval", 0, {"K": True}],
        ["eval", 0, {"K": "True"}], ["eval", 0, {"K": None}], ["eval", 0, {"K": "None"}], ["eval", 0, {"K": "1"}],
        ["eval", 0, {"K": 0}], ["eval", 0, {"K": "0"}], ["eval", 0, {"K": False}], ["eval", 0, {"K": "False"}]]})
    cs.append({"impls": [L("dflt"), L("strNone"), L("none")], "disps": DISPS, "ops": [
        ["new", 0, ["key", "K"], 0, 2], ["reg", 0, "None", 1], ["reg", 0, None, 2],
        ["eval", 0, {"K": "None"}], ["eval", 0, {"K": None}], ["eval", 0, {"K": "None"}], ["eval", 0, {}],
        ["eval", 0, {"K": ""}], ["eval", 0, {"K": "x"}]]})
    return cs


def trigger_corpus():
    """known finding F24: set_dispatch on a dataset that already holds stored entries"""
    cs = []
    cs.append({"impls": [L("dflt"), L("ix"), L("iy")], "disps": DISPS, "ops": [
        ["new", 0, ["keyd", "K", "x"], 0, None], ["reg", 0, "x", 1], ["reg", 0, "y", 2], ["eval", 0, {}],
        ["setd", 0, ["keyd", "K", "y"]], ["eval", 0, {}], ["setd", 0, ["key", "K2"]], ["eval", 0, {}]]})
    cs.append({"impls": [L("dflt"), L("ix")], "disps": DISPS, "ops": [
        ["new", 0, ["key", "K"], 0, None], ["reg", 0, "x", 1], ["eval", 0, {}],
        ["setd", 0, ["keyd", "K", "x"]], ["eval", 0, {}]]})
    cs.append({"impls": [L("dflt"), L("ix")], "disps": DISPS, "ops": [
        ["new", 0, ["keyd", "K", "x"], 0, 2], ["reg", 0, "x", 1], ["eval", 0, {}],
        ["iface", 0, ["key", "K2"], [["a", 0, "ext", None, None]]], ["eval", 0, {}]]})
    return cs


def trigger_random(rng, n):
    cs = []
    for _ in range(n):
        g = CaseGen(rng, allow_trigger=True)
        d0 = rng.choice([["keyd", "K", rng.choice(["x", "y"])], ["key", "K"], ["ds", 0]])
        g.impls = [L("dflt"), L("ix"), L("iy", [("A", {"d": "a0"})])]
        g.ops = [["new", 0, d0, rng.choice([0, None]), None], ["reg", 0, "x", 1], ["reg", 0, "y", 2]]
        g.ds[0] = {"disp": d0, "abstract": False, "evaluated": False, "member": False}
        opts = [{}, {"K": "x"}, {"K": "y"}, {"K2": "x"}, {"K2": "y", "K": "x"}, {"Q": "r"}, {"Q": "y"}]
        for _k in range(rng.randint(1, 3)):
            g.ops.append(["eval", 0, rng.choice(opts)])
        nd = rng.choice([["keyd", "K", "y"], ["keyd", "K", "x"], ["key", "K2"], ["key", "K"], ["ds", 0],
                         ["keyd", "K2", "y"]])
        g.ops.append(["setd", 0, nd])
        for _k in range(rng.randint(1, 4)):
            g.ops.append(["eval", 0, rng.choice(opts)])
        cs.append({"impls": g.impls, "disps": DISPS, "ops": g.ops})
    return cs


def exc_model_case(row, form, thorough=True):
    """the directed history for one row of the exception table: every dataset dispatches on the failing
    expression dd1 (option QX, read by nothing else); {} and {"A": 1} make the dispatch fail"""
    A = ("A", {"d": "a0"})
    impls = [L("dflt", [A]), L("ix"), L("m_b", [A]), L("m_c"), L("ia"), L("ib"), L("s_d", [A]), L("late")]
    disps = [DISPS[0], {"key": "QX", "map": [["r", "x"]], "exc": row["id"], "form": form}]
    X = ["ds", 1]
    ops = [["new", 0, X, 0, 1],                                     # default implementation, callback
           ["new", 1, X, None, None],                               # abstract
           ["new", 2, ["key", "K"], 6, None], ["setd", 2, X],       # re-dispatched (before any evaluation)
           ["reg", 0, "x", 1], ["reg", 1, "x", 1], ["ovl", [[2, ["x"]]], 1],
           ["iface", 0, X, [["a", 3, "ann", None, None], ["b", 4, "fn", 2, None], ["c", 5, "ds", 3, 7]]],
           ["impl", [0], ["x"], [["a", 4], ["b", 5]]]]
    if thorough:
        for d in range(6):
            ops += [["eval", d, {}], ["eval", d, {"QX": "x"}], ["eval", d, {"A": 1}], ["eval", d, {"QX": "u"}],
                    ["eval", d, {}]]
    else:   # (every evaluation costs three: the fresh reference object, the members' alias check)
        ops += [["eval", 0, {}], ["eval", 0, {"QX": "x"}], ["eval", 0, {"A": 1}], ["eval", 0, {}],
                ["eval", 1, {}], ["eval", 1, {"QX": "x"}], ["eval", 2, {}], ["eval", 2, {"A": 1}],
                ["eval", 3, {}], ["eval", 3, {"QX": "x"}], ["eval", 4, {"A": 1}], ["eval", 4, {}], ["eval", 5, {}]]
    # a later registration applies to the determinable values only
    ops += [["reg", 0, "u", 7], ["eval", 0, {"QX": "u"}], ["eval", 0, {}]]
    if thorough:
        ops += [["eval", 1, {"QX": "r"}], ["eval", 1, {"A": 2}]]
    return {"impls": impls, "disps": disps, "ops": ops, "xrow": row["id"]}


def exc_model_cases(seed, thorough):
    cs = []
    for i, row in enumerate(EXC_ROWS):
        forms = XFORMS if thorough else [XFORMS[(seed + i) % len(XFORMS)]]
        cs += [exc_model_case(row, f, thorough) for f in forms]
    return cs


def exc_direct_cases(seed, thorough):
    """every row x every position x with/without default, all dispatching on the row's failing expression.
    quick: the 20 targets of a row are dealt to 4 programs whose (form, trigger) rotate with the row and the
    seed, one target per row gets the whole evaluation list (the others only the failing dispatch);
    thorough: one program per (form, trigger) with all 20 targets, 4 of them with the whole list."""
    cs = []
    combos = [(f, t) for f in XFORMS for t in XTRIG]
    targets = [(pos, dflt) for pos in XPOS for dflt in (True, False)]
    for i, row in enumerate(EXC_ROWS):
        if thorough:
            for j, (f, t) in enumerate(combos):
                tg = [[pos, dflt, (k + i + j + seed) % 5 == 0] for k, (pos, dflt) in enumerate(targets)]
                cs.append({"x": {"exc": row["id"], "form": f, "trig": t, "targets": tg}})
        else:
            for g in range(4):
                f, t = combos[(seed + 7 * i + 3 * g) % len(combos)]
                mine = [(pos, dflt) for k, (pos, dflt) in enumerate(targets) if (k + i) % 4 == g]
                tg = [[pos, dflt, g == (seed + i) % 4 and k == (seed + i // 4) % len(mine)]
                      for k, (pos, dflt) in enumerate(mine)]
                cs.append({"x": {"exc": row["id"], "form": f, "trig": t, "targets": tg}})
    return cs


# --------------------------------------------------------------------------------------------
# directed family "an Option-based dispatch can or cannot be determined" (every run, both tiers)

DOM = ["fast", "exact", "slow"]          # the domain in play: 'slow' is allowed but never registered
REG = ["fast", "exact", "auto", "bogus"]  # registered: two allowed values, the out-of-domain default, another outsider


def oform_rows():
    """rows {"id", "way", "ox", "evals": [options...], "reg": [values registered]}: every way an Option-based
    dispatch turns out determinable or not.  The option dictionaries of a row are chosen so that, by the reference
    reading, the row meets the situations its `way` names; `oform_cases` checks that on every run."""
    rows = []

    def row(way, id_, ox, evals, reg=None, nofp=None, same_a=False):
        rows.append({"id": id_, "way": way, "ox": ox, "evals": evals, "reg": REG if reg is None else reg, "nofp": nofp,
                     "same_a": same_a})

    def opt(key="ENGINE", **spec):
        return ["opt", key, spec]

    D = {"d": "auto"}       # the default outside the domain
    Din = {"d": "fast"}     # a default inside it
    std = [{}, {"ENGINE": "fast"}, {"ENGINE": "slow"}, {"ENGINE": "bogus"}, {"ENGINE": "auto"}, {"A": 1},
           {"ENGINE": "exact", "A": 1}]
    # -- no domain: key absent without / with default, None and falsy values present
    falsy = [{}, {"ENGINE": "fast"}, {"ENGINE": "slow"}, {"ENGINE": None}, {"ENGINE": 0}, {"ENGINE": False},
             {"ENGINE": ""}, {"ENGINE": 1}, {"A": 1}]
    freg = ["fast", None, 0, "", "auto"]
    row("no default", "Option(K)", opt(), falsy, freg)
    row("no default", "dispatch='K'", ["str", "ENGINE"], falsy, freg)
    row("default, no domain", "Option(K, 'auto')", opt(default=D), falsy, freg)
    row("default, no domain", "Option(K, default=None)", opt(default={"d": None}), falsy, freg)
    row("default, no domain", "Option(K, 0)", opt(default={"d": 0}, dstyle="pos"), falsy, freg)
    row("default, no domain", "Option(K, '')", opt(default={"d": ""}, dstyle="pos"), falsy, freg)
    row("default, no domain", "Option(K, default=Option(K2, 'auto'))",
        opt(default_ox=opt("ENGINE2", default=D)), falsy + [{"ENGINE2": "fast"}, {"ENGINE2": None}], freg)
    row("default_factory", "Option(K, default_factory=lambda: 'auto')", opt(factory=D), falsy, freg)
    row("default_factory", "Option(K, default='fast', default_factory=lambda: 'auto')",
        opt(default=Din, factory=D), falsy, freg)
    # -- a domain given as a container: default outside / inside / none
    for kind in ("list", "tuple", "set", "frozenset", "dict", "value"):
        dom = ["cont", kind, DOM]
        row("container domain, default outside", "Option(K, 'auto', domain=%s)" % kind, opt(default=D, domain=dom), std)
        row("container domain, default inside", "Option(K, 'fast', domain=%s)" % kind, opt(default=Din, domain=dom), std)
        row("container domain, no default", "Option(K, domain=%s)" % kind, opt(domain=dom), std)
    row("container domain, default outside", "Option(K, None, domain=list)  [None as the sentinel]",
        opt(default={"d": None}, domain=["cont", "list", DOM]), std + [{"ENGINE": None}], REG + [None])
    row("container domain, default outside", "Option(K, default_factory=lambda: 'auto', domain=list)",
        opt(factory=D, domain=["cont", "list", DOM]), std)
    row("container domain, default inside", "Option(K, default_factory=lambda: 'exact', domain=tuple)",
        opt(factory={"d": "exact"}, domain=["cont", "tuple", DOM]), std)
    row("container domain, default outside", "Option(K, default=Option(K2, 'auto'), domain=list)",
        opt(default_ox=opt("ENGINE2", default=D), domain=["cont", "list", DOM]),
        std + [{"ENGINE2": "fast"}, {"ENGINE2": "bogus"}, {"ENGINE2": "slow"}])
    # -- a domain given as a predicate
    for pred in ("in-fes", "not-auto-bogus"):
        row("predicate domain, default outside", "Option(K, 'auto', domain=<%s>)" % pred, opt(default=D, domain=["pred", pred]), std)
        row("predicate domain, default inside", "Option(K, 'fast', domain=<%s>)" % pred, opt(default=Din, domain=["pred", pred]), std)
        row("predicate domain, no default", "Option(K, domain=<%s>)" % pred, opt(domain=["pred", pred]), std)
    row("predicate domain, default outside", "Option(K, None, domain=str.islower)  [the predicate raises on the default]",
        opt(default={"d": None}, domain=["pred", "islower"]), std + [{"ENGINE": "FAST"}, {"ENGINE": None}], REG + [None, "FAST"])
    row("predicate domain, default outside", "Option(K, 'abc', domain=len(v) > 3)",
        opt(default={"d": "abc"}, domain=["pred", "len3+"]), std + [{"ENGINE": "abc"}, {"ENGINE": 5}], REG + ["abc", 5])
    row("predicate domain, default inside", "Option(K, 'auto', domain=always)", opt(default=D, domain=["pred", "always"]), std)
    row("predicate domain, default outside", "Option(K, 'auto', domain=never)", opt(default=D, domain=["pred", "never"]), std)
    # -- None / falsy values against a domain
    fz = [{}, {"ENGINE": None}, {"ENGINE": 0}, {"ENGINE": False}, {"ENGINE": ""}, {"ENGINE": "fast"}, {"ENGINE": 1},
          {"ENGINE": True}, {"A": 1}]
    fzreg = [None, 0, "", "fast", "auto", 1]
    row("falsy values", "Option(K, 'auto', domain=[None, 0, 'fast'])",
        opt(default=D, domain=["cont", "list", [None, 0, "fast"]]), fz, fzreg)
    row("falsy values", "Option(K, None, domain=['', 1, 'fast'])",
        opt(default={"d": None}, domain=["cont", "tuple", ["", 1, "fast"]]), fz, fzreg)
    row("falsy values", "Option(K, 0, domain=<truthy>)", opt(default={"d": 0}, dstyle="pos", domain=["pred", "ident"]), fz, fzreg)
    row("falsy values", "Option(K, '', domain=bool)", opt(default={"d": ""}, domain=["pred", "bool"]), fz, fzreg)
    row("falsy values", "Option(K, 'auto', domain=<is not None>)", opt(default=D, domain=["pred", "not-none"]), fz, fzreg)
    row("falsy values", "Option(K, None, domain=<is not None>)", opt(default={"d": None}, domain=["pred", "not-none"]), fz, fzreg)
    row("falsy values", "Option(K, False, domain=[0])  [False == 0]", opt(default={"d": False}, domain=["cont", "list", [0]]), fz, fzreg)
    row("falsy values", "Option(K, 0, domain=range(1, 3))", opt(default={"d": 0}, domain=["range", 1, 3]), fz, fzreg + [2])
    # -- a domain given as an Evaluatable: an Option holding the allowed values, present and absent
    allowed = [{"ALLOWED": ["fast", "auto"]}, {"ALLOWED": ["fast", "auto"], "ENGINE": "exact"},
               {"ALLOWED": ["exact", "bogus"], "ENGINE": "bogus"}, {"ALLOWED": [], "ENGINE": "fast"}, {"ALLOWED": ["slow", "auto"], "A": 1},
               {"ALLOWED": ["fast"]}]
    for dflt, w in ((D, "outside"), (Din, "inside"), (None, None)):
        sp = {} if dflt is None else {"default": dflt}
        way = "evaluatable domain, " + ("no default" if dflt is None else "default " + w)
        lab = "Option(K%s, " % ("" if dflt is None else ", %r" % dflt["d"])
        row(way, lab + "domain=Option(ALLOWED))", opt(domain=["ev", opt("ALLOWED")], **sp), std + allowed)
        row(way, lab + "domain=Option(ALLOWED, [...]))", opt(domain=["ev", opt("ALLOWED", default={"d": DOM})], **sp), std + allowed)
    row("evaluatable domain, default outside", "Option(K, 'auto', domain=Option(P.ALLOWED, [...]))  [dotted]",
        opt(default=D, domain=["ev", opt("P.ALLOWED", default={"d": DOM})]),
        std + [{"P": {"ALLOWED": ["auto"]}}, {"P": {"ALLOWED": ["auto"]}, "ENGINE": "fast"}, {"P": {}}])
    row("evaluatable domain, default outside", "Option(K, 'auto', domain=Option(ALLOWED, [...]) >> f)",
        opt(default=D, domain=["ev", ["pipe", opt("ALLOWED", default={"d": DOM}), "ident"]]), std + allowed)
    # -- a domain given as a labrea.functions helper
    helpers = [("F.one_of('fast', 'exact', 'slow')", ["F", "one_of", DOM]),
               ("F.none_of('auto', 'bogus')", ["F", "none_of", ["auto", "bogus"]]),
               ("F.is_in([...])", ["F", "is_in", [DOM]]),
               ("F.is_not_in(['auto', 'bogus'])", ["F", "is_not_in", [["auto", "bogus"]]]),
               ("F.invert(<is auto>)", ["F", "invert", ["eq-auto"]]),
               ("F.ne('auto')", ["F", "ne", ["auto"]])]
    for lab, dom in helpers:
        row("helper domain, default outside", "Option(K, 'auto', domain=%s)" % lab, opt(default=D, domain=dom), std)
    for lab, dom in helpers[:2]:
        row("helper domain, default inside", "Option(K, 'fast', domain=%s)" % lab, opt(default=Din, domain=dom), std)
        row("helper domain, no default", "Option(K, domain=%s)" % lab, opt(domain=dom), std)
    row("helper domain, default inside", "Option(K, 'fast', domain=F.eq('fast'))", opt(default=Din, domain=["F", "eq", ["fast"]]), std)
    row("helper domain, default outside", "Option(K, 'auto', domain=F.one_of(Option(FIRST, 'fast'), 'exact'))",
        opt(default=D, domain=["F", "one_of", [["ox", opt("FIRST", default=Din)], "exact"]]),
        std + [{"FIRST": "auto"}, {"FIRST": "auto", "ENGINE": "fast"}, {"FIRST": "bogus", "ENGINE": "bogus", "A": 1}])
    ints = [{}, {"ENGINE": 1}, {"ENGINE": 2}, {"ENGINE": 0}, {"ENGINE": -1}, {"ENGINE": True}, {"ENGINE": "fast"}, {"A": 1}]
    row("helper domain, default outside", "Option(K, 0, domain=F.negate)  [-v is the verdict; raises on a string]",
        opt(default={"d": 0}, domain=["F", "negate", []]), ints, [0, 1, -1, "fast"])
    row("helper domain, default inside", "Option(K, 2, domain=F.negate)", opt(default={"d": 2}, domain=["F", "negate", []]), ints, [0, 1, -1, "fast"])
    # -- type= annotations
    row("type annotation", "Option[int](K, 0, domain=[1, 2])",
        opt(default={"d": 0}, dstyle="pos", type="int", tstyle="getitem", domain=["cont", "list", [1, 2]]), ints, [0, 1, -1, "fast"])
    row("type annotation", "Option[int](K, 1, domain=<positive>)",
        opt(default={"d": 1}, type="int", tstyle="getitem", domain=["pred", "pos"]), ints, [0, 1, -1, "fast"])
    row("type annotation", "Option(K, 'auto', type=str, domain=list)", opt(default=D, type="str", domain=["cont", "list", DOM]),
        std + [{"ENGINE": 1}], REG + [1])
    row("type annotation", "Option[str](K, 'fast', domain=list)", opt(default=Din, type="str", tstyle="getitem", domain=["cont", "list", DOM]), std)
    row("type annotation", "Option[int](K)  [a string is provided]", opt(type="int", tstyle="getitem"), falsy, freg)
    row("type annotation", "Option(K, 'auto', type=int)  [the default is no int]", opt(default=D, type="int"), falsy, freg)
    # -- templated values
    tpl = [{"ENGINE": "{OTHER}", "OTHER": "fast"}, {"ENGINE": "{OTHER}", "OTHER": "slow"}, {"ENGINE": "{OTHER}"},
           {"ENGINE": "{OTHER}", "OTHER": "bogus"}, {"ENGINE": "{OTHER}", "OTHER": "auto", "A": 1}, {"OTHER": "fast"},
           {"ENGINE": "{P.Q}", "P": {"Q": "exact"}}, {"ENGINE": "{P.Q}", "P": {}}, {"ENGINE": "x-{OTHER}", "OTHER": "fast"},
           {"ENGINE": "{OTHER}", "OTHER": None}, {"ENGINE": "{OTHER}", "OTHER": 1}]
    treg = REG + ["x-fast", None, 1]
    row("templated value", "Option(K)  ['{OTHER}' provided]", opt(), std + tpl, treg)
    row("templated value", "dispatch='K'  ['{OTHER}' provided]", ["str", "ENGINE"], std + tpl, treg)
    row("templated value", "Option(K, 'fast')  ['{OTHER}' provided]", opt(default=Din, dstyle="pos"), std + tpl, treg)
    row("templated value", "Option(K, 'auto', domain=list)  ['{OTHER}' provided]", opt(default=D, domain=["cont", "list", DOM]), std + tpl, treg)
    row("templated value", "Option(K, '{OTHER}')  [the default is a template]", opt(default={"d": "{OTHER}"}),
        std + tpl + [{"OTHER": "slow"}, {"OTHER": 1}, {"OTHER": "auto", "A": 1}], treg + ["1"])
    row("templated value", "Option(K, '{OTHER}', domain=list)", opt(default={"d": "{OTHER}"}, domain=["cont", "list", DOM]),
        std + tpl + [{"OTHER": "slow"}, {"OTHER": "auto"}, {"OTHER": "bogus", "A": 1}], treg)
    # -- reference chains: the option that finally decides the dispatch value sits three references away
    def chain(end, **more):
        d = {"ENGINE": "{OTHER}", "OTHER": "{P.Q}", "P": {"Q": "{LAST}"}}
        if end is not _OX_ABSENT_END:
            d["LAST"] = end
        d.update(more)
        return d
    chains = [chain("fast"), chain("slow"), chain("fast"), chain("exact"), chain(_OX_ABSENT_END), chain("bogus"),
              chain("auto", A=1), chain("slow")]
    row("templated chain", "dispatch='K'  [K -> OTHER -> P.Q -> LAST]", ["str", "ENGINE"], std + chains, treg)
    row("templated chain", "Option(K)  [K -> OTHER -> P.Q -> LAST]", opt(), std + chains, treg)
    row("templated chain", "Option(K, 'auto', domain=list)  [K -> OTHER -> P.Q -> LAST]",
        opt(default=D, domain=["cont", "list", DOM]), std + chains, treg)
    dchains = [{k_: v_ for k_, v_ in c_.items() if k_ != "ENGINE"} for c_ in chains]
    det = [chain("fast"), chain("slow"), chain("exact"), chain("bogus"), chain("fast"), chain("x-fast")]
    row("templated chain", "dispatch='K'  [K -> OTHER -> P.Q -> LAST; the dictionaries differ in LAST only]",
        ["str", "ENGINE"], det, treg, same_a=True)
    row("templated chain", "Option(K)  [K -> OTHER -> P.Q -> LAST; the dictionaries differ in LAST only]", opt(), det, treg,
        same_a=True)
    row("templated chain", "Option(K, '{OTHER}')  [the default starts the chain; the dictionaries differ in LAST only]",
        opt(default={"d": "{OTHER}"}), [{k_: v_ for k_, v_ in c_.items() if k_ != "ENGINE"} for c_ in det], treg, same_a=True)
    row("templated chain", "Option(K, '{OTHER}')  [the default starts the chain]", opt(default={"d": "{OTHER}"}),
        std + dchains + chains, treg)
    # -- dotted keys
    dot = [{}, {"S": {}}, {"S": {"ENGINE": "fast"}}, {"S": {"ENGINE": "slow"}}, {"S": {"ENGINE": "bogus"}}, {"S": {"ENGINE": "auto"}, "A": 1},
           {"S": {"OTHER": "fast"}}, {"S": {"ENGINE": None}}, {"ENGINE": "fast"}, {"S": {"ENGINE": "{S.OTHER}", "OTHER": "exact"}}]
    row("dotted key", "dispatch='S.K'", ["str", "S.ENGINE"], dot, REG + [None])
    row("dotted key", "Option('S.K')", opt("S.ENGINE"), dot, REG + [None])
    row("dotted key", "Option('S.K', 'auto', domain=list)", opt("S.ENGINE", default=D, domain=["cont", "list", DOM]), dot, REG + [None])
    row("dotted key", "Option('S.K', 'fast', domain=<pred>)", opt("S.ENGINE", default=Din, domain=["pred", "in-fes"]), dot, REG + [None])
    # -- members of an Option.namespace
    nso = [{}, {"NS": {}}, {"NS": {"ENGINE": "fast"}}, {"NS": {"ENGINE": "slow"}}, {"NS": {"ENGINE": "bogus"}},
           {"NS": {"ENGINE": "auto"}, "A": 1}, {"ENGINE": "fast"}, {"NS": {"ENGINE": None}}]
    row("namespace member", "NS.K  [K = Option(K, 'auto', domain=list)]",
        ["ns", "option", "NS.ENGINE", {"default": D, "domain": ["cont", "list", DOM]}], nso, REG + [None])
    row("namespace member", "NS.K  [K = Option(K, 'fast', domain=<pred>)]",
        ["ns", "option", "NS.ENGINE", {"default": Din, "domain": ["pred", "in-fes"]}], nso, REG + [None])
    row("namespace member", "NS.K  [K = Option(K, domain=tuple)]", ["ns", "option", "NS.ENGINE", {"domain": ["cont", "tuple", DOM]}], nso, REG + [None])
    row("namespace member", "NS.K  [K = Option.auto('auto', domain=list)]",
        ["ns", "auto", "NS.ENGINE", {"default": D, "domain": ["cont", "list", DOM]}], nso, REG + [None])
    row("namespace member", "NS.K  [K = Option.auto(domain=F.one_of(...))]", ["ns", "auto", "NS.ENGINE", {"domain": ["F", "one_of", DOM]}], nso, REG + [None])
    row("namespace member", "NS.K  [K = 'auto']", ["ns", "const", "NS.ENGINE", {"default": D}], nso, REG + [None])
    row("namespace member", "NS.K  [K: str]", ["ns", "ann", "NS.ENGINE", {}], nso, REG + [None])
    nso2 = [{}, {"NS": {"SUB": {}}}, {"NS": {"SUB": {"ENGINE": "fast"}}}, {"NS": {"SUB": {"ENGINE": "slow"}}},
            {"NS": {"SUB": {"ENGINE": "bogus"}}}, {"NS": {"ENGINE": "fast"}, "A": 1}, {"NS": {"SUB": {"ENGINE": "auto"}}}]
    row("namespace member", "NS.SUB.K  [K = Option(K, 'auto', domain=list) in a nested class]",
        ["ns", "option", "NS.SUB.ENGINE", {"default": D, "domain": ["cont", "list", DOM]}], nso2)
    row("namespace member", "NS.SUB.K  [K = Option.auto('fast', domain=<pred>) in a nested class]",
        ["ns", "auto", "NS.SUB.ENGINE", {"default": Din, "domain": ["pred", "not-auto-bogus"]}], nso2)
    # -- the dispatch key pinned by WithOptions / WithDefaultOptions / Dataset.with_options
    base = opt(default=D, domain=["cont", "list", DOM])
    evb = opt(default=D, domain=["ev", opt("ALLOWED", default={"d": DOM})])
    for kind in ("with", "dswith"):
        nm = {("with", True): "WithOptions", ("with", False): "WithDefaultOptions",
              ("dswith", True): "dataset.with_options", ("dswith", False): "dataset.with_default_options"}
        for force in (True, False):
            for pin in ("fast", "slow", "bogus", "auto"):
                row("pinned dispatch key", "%s(Option(K, 'auto', domain=list), {K: %r})" % (nm[kind, force], pin),
                    [kind, base, {"ENGINE": pin}, force], std)
            row("pinned dispatch key", "%s(Option(K, 'auto', domain=list), {UNRELATED: 1})" % nm[kind, force],
                [kind, base, {"UNRELATED": 1}, force], std)
            row("pinned dispatch key", "%s(Option(K, 'auto', domain=Option(ALLOWED, [...])), {ALLOWED: ['auto', 'exact']})" % nm[kind, force],
                [kind, evb, {"ALLOWED": ["auto", "exact"]}, force], std + allowed)
            row("pinned dispatch key", "%s(Option(K), {K: 'fast'})" % nm[kind, force], [kind, opt(), {"ENGINE": "fast"}, force], std)
    # -- Option(...) >> f
    for fn, style in (("swap", ">>"), ("ident", "apply"), (["ident", "swap"], ">>"), ("upper", ">>")):
        lab = fn if isinstance(fn, str) else " >> ".join(fn)
        row("Option >> f", "Option(K, 'auto', domain=list) %s %s" % (style, lab), ["pipe", base, fn, style], std, REG + ["FAST", "AUTO"])
        row("Option >> f", "Option(K, 'fast', domain=<pred>) %s %s" % (style, lab),
            ["pipe", opt(default=Din, domain=["pred", "in-fes"]), fn, style], std, REG + ["FAST", "AUTO"])
    row("Option >> f", "Option(K, None) >> upper  [f raises on the default]", ["pipe", opt(default={"d": None}), "upper", ">>"], falsy,
        ["FAST", None, "", "auto"])
    row("Option >> f", "Option(K, 'auto') >> swap  [no domain: 'auto' is mapped]", ["pipe", opt(default=D), "swap", ">>"], std)
    # -- case(...)
    whens = [["eq-fast", ["c", "exact"]], ["eq-auto", ["c", "auto"]], ["eq-exact", opt("WHEN_EXACT", default=Din)]]
    cev = std + [{"ENGINE": "exact", "WHEN_EXACT": "bogus"}, {"WHEN_EXACT": "auto"}]
    row("case over an Option", "case(Option(K, 'auto', domain=list)).when(...)", ["case", base, whens, None], cev)
    row("case over an Option", "case(Option(K, 'auto', domain=list)).when(...).otherwise('fast')", ["case", base, whens, ["c", "fast"]], cev)
    row("case over an Option", "case(Option(K, 'fast', domain=list)).when(...).otherwise('auto')",
        ["case", opt(default=Din, domain=["cont", "list", DOM]), whens, ["c", "auto"]], cev)
    row("case over an Option", "case(Option(K, 'auto')).when(...)  [no domain]", ["case", opt(default=D), whens, None], cev)
    row("case over an Option", "case(Option(K)).when(...).otherwise(Option(K2, 'auto', domain=list))",
        ["case", opt(), whens, opt("ENGINE2", default=D, domain=["cont", "list", DOM])], cev + [{"ENGINE": "slow", "ENGINE2": "fast"}])
    # -- switch(...)
    tbl = [["fast", ["c", "exact"]], ["exact", opt("WHEN_EXACT", default=Din)], ["auto", ["c", "auto"]]]
    row("switch over an Option", "switch(Option(K, 'auto', domain=list), {...})", ["switch", base, tbl, None], cev)
    row("switch over an Option", "switch(Option(K, 'auto', domain=list), {...}, 'bogus')", ["switch", base, tbl, ["c", "bogus"]], cev)
    row("switch over an Option", "switch(Option(K, 'fast', domain=<pred>), {...}, Option(K2, 'auto', domain=list))",
        ["switch", opt(default=Din, domain=["pred", "in-fes"]), tbl, opt("ENGINE2", default=D, domain=["cont", "list", DOM])],
        cev + [{"ENGINE": "slow", "ENGINE2": "fast"}, {"ENGINE": "bogus", "ENGINE2": "exact"}])
    row("switch over an Option", "switch('K', {...}, 'slow')", ["switch", ["str", "ENGINE"], tbl, ["c", "slow"]], cev)
    row("switch over an Option", "switch('K', {...})", ["switch", ["str", "ENGINE"], tbl, None], cev)
    # -- coalesce(...)
    row("coalesce over Options", "coalesce(Option(K, 'auto', domain=list), Value('exact'))", ["coalesce", [base, ["c", "exact"]]], std)
    row("coalesce over Options", "coalesce(Option(K), Option(K2, 'auto', domain=list))",
        ["coalesce", [opt(), opt("ENGINE2", default=D, domain=["cont", "list", DOM])]],
        std + [{"ENGINE2": "fast"}, {"ENGINE2": "bogus"}, {"ENGINE": "slow", "ENGINE2": "fast"}])
    row("coalesce over Options", "coalesce(Option(K, domain=list), Option(K2, domain=list))",
        ["coalesce", [opt(domain=["cont", "list", DOM]), opt("ENGINE2", domain=["cont", "list", DOM])]],
        std + [{"ENGINE2": "fast"}, {"ENGINE2": "bogus"}, {"ENGINE": "bogus", "ENGINE2": "exact"}, {"ENGINE": "slow", "ENGINE2": "fast"}])
    dev = ("Coalesce.keys() names the first member that validates; Option.validate / keys accept an absent key whose "
           "default is outside the domain, evaluate does not: the fingerprint lacks the keys of the member that gave "
           "the value (OX_PROBES)")
    row("coalesce over Options", "coalesce(Option(K, 'auto', domain=list), Option(K2, 'fast', domain=list))",
        ["coalesce", [base, opt("ENGINE2", default=Din, domain=["cont", "list", DOM])]],
        std + [{"ENGINE2": "exact"}, {"ENGINE2": "bogus"}, {"ENGINE": "bogus", "ENGINE2": "exact"}], nofp=dev)
    row("coalesce over Options", "coalesce(Option(K, 'auto', domain=list), Option(K2, 'auto', domain=<pred>))",
        ["coalesce", [base, opt("ENGINE2", default=D, domain=["pred", "in-fes"])]], std + [{"ENGINE2": "exact"}, {"ENGINE2": "bogus", "A": 1}],
        nofp=dev)
    assert len({r["id"] for r in rows}) == len(rows)
    return rows


OFORM_ALWAYS_DETERMINABLE = {"default, no domain", "default_factory"}      # (an Option with a default and no domain)
OFORM_ROWS = oform_rows()
OFORMS = {r["id"]: r for r in OFORM_ROWS}


def oform_case(row, thorough, salt=0):
    """the directed history of one row: a dataset with a default implementation (and a callback), an abstract one,
    an interface with an abstract member, a member with a default that implementations override and one they do
    not -- all dispatching on the row's expression dd1, implementations registered under exactly row["reg"] --
    evaluated under every options dictionary of the row (twice: stored entries), then once more after a late
    registration of the allowed value that had none"""
    A = ("A", {"d": "a0"})
    impls = [L("dflt", [A]), L("m_b", [A]), L("m_c", [A])]
    disps = [DISPS[0], {"key": ox_key(1), "map": [], "ox": row["ox"]}]
    if row.get("nofp"):
        disps[1]["nofp"] = row["nofp"]
    X = ["ds", 1]
    ops = [["new", 0, X, 0, 1], ["new", 1, X, None, None],
           ["iface", 0, X, [["a", 2, "ann", None, None], ["b", 3, "fn", 1, None], ["c", 4, "ds", 2, 7]]]]
    nd = 5
    if thorough and row["ox"][0] != "str":      # re-dispatched before any evaluation
        impls.append(L("s_d", [A]))
        ops += [["new", 5, ["key", "K9"], len(impls) - 1, None], ["setd", 5, X]]
        nd = 6
    for j, v in enumerate(row["reg"]):
        base = len(impls)
        impls += [L("r%d" % j, [A]), L("ia%d" % j, [A]), L("ib%d" % j, [A])]
        v = enc(v)
        if (j + salt) % 3 == 0:
            ops += [["reg", 0, v, base], ["reg", 1, v, base]]
        elif (j + salt) % 3 == 1:
            ops += [["ovl", [[0, [v]], [1, [v]]], base]]
        else:
            ops += [["ovl", [[1, [v]]], base], ["reg", 0, v, base]]
        if nd == 6:
            ops += [["reg", 5, v, base]]
        ops += [["impl", [0], [v], [["a", base + 1], ["b", base + 2]]]]
    # every dictionary carries its own value of A, which every implementation reads: the fingerprints of two
    # dictionaries differ whatever the dispatch read (known finding F19 -- the keys read by a dispatch that then
    # FAILS are not in the fingerprint -- would otherwise let {K: <outside the domain>} reproduce the entry
    # stored under {}; that is recorded by `oform_probe`, outside the violation oracle)
    # (a `same_a` row holds only dictionaries under which the dispatch is determinable, and gives them ONE value of A:
    #  they differ in nothing but what the dispatch reads, possibly several references away, on one cache)
    evals = [dict(o, A=10 + (0 if row.get("same_a") else n)) for n, o in enumerate(row["evals"])]
    for n, o in enumerate(evals):
        # (quick: both datasets and one interface member in turn; thorough: everything)
        ops += [["eval", d, o] for d in (range(nd) if thorough else (0, 1, 2 + (n + salt) % 3))]
    # stored entries: the same dictionaries again, in another order
    again = evals[::-1] if thorough else evals[salt % 2::2][::-1]
    for n, o in enumerate(again):
        ops += [["eval", d, o] for d in ((0, 1, 2, 3) if thorough else (0, 2 + (n + salt) % 3)[:1 + n % 2])]
    return {"impls": impls, "disps": disps, "ops": ops, "oform": row["id"]}


def oform_cases(seed, thorough):
    return [oform_case(r, thorough, seed + i) for i, r in enumerate(OFORM_ROWS)]


def oform_entry(per, rid):
    return per.setdefault(rid, {"programs": 0, "evaluations": 0, "determinable_registered": 0,
                                "determinable_unregistered": 0, "undeterminable": 0, "registered_selected": 0,
                                "default_used": 0, "evaluation_error": 0, "oracle_failures": 0})


def oform_tally(case, res, per, ways):
    """per row / per way, measured on this run: the evaluations by what the reference reading says of the dispatch
    (determinable and registered / determinable and unregistered / undeterminable) and by what the oracle accepted
    as their outcome (a registered implementation, the default implementation, an evaluation error)"""
    row = OFORMS[case["oform"]]
    evs = [(k, op) for k, op in enumerate(case["ops"]) if op[0] == "eval"]
    obs = [o for o in res["obs"].split(" | ") if o.startswith(("val=", "err="))]
    if len(evs) != len(obs):
        raise Infra("C07: %d evaluations, %d observations for %s" % (len(evs), len(obs), row["id"]))
    bad_ops = {f["op"] for f in res["fails"]}
    ref = Ref(case)
    for e in (oform_entry(per, row["id"]), oform_entry(ways, row["way"])):
        e["programs"] += 1
    for (k, op), o in zip(evs, obs):
        ref.advance(k)
        dv, impl, selerr = ref.select(op[1], op[2])
        r = ref.ds[op[1]]
        for e in (oform_entry(per, row["id"]), oform_entry(ways, row["way"])):
            e["evaluations"] += 1
            if dv[0] == "undet":
                e["undeterminable"] += 1
            elif dv[1] in r["table"]:
                e["determinable_registered"] += 1
            else:
                e["determinable_unregistered"] += 1
            if k in bad_ops:
                e["oracle_failures"] += 1
            elif o.startswith("err="):
                e["evaluation_error"] += 1
            elif dv[0] == "ok" and dv[1] in r["table"]:
                e["registered_selected"] += 1
            else:
                e["default_used"] += 1


SPELL_SHAPES = [(disp, cb) for disp in (["key", "K"], ["keyd", "K", "x"], ["ds", 0], ["missing"]) for cb in (None, 1)]


def spelling_case(sid, disp, cb, dkind="leaf"):
    """the directed history for one spelling: d0 (default implementation: a function the spelling defines, or with
    dkind "opt" an existing Evaluatable it wraps) and d1 (abstract) are both built by it, then evaluated with a
    registered / unregistered / undeterminable dispatch value, before and after a late registration; d2 is the
    same dataset in the plainest spelling (its neighbours must not disturb it)"""
    A = ("A", {"d": "a0"})
    impls = [L("dflt", [A, ("B", None)]) if dkind == "leaf" else {"k": "opt", "key": "B", "d": None},
             L("ix"), L("iy", [A]), L("late"), L("plain", [A])]
    cb1 = None if cb is None else cb + 1
    ops = [["new", 0, disp, 0, cb, sid], ["new", 1, disp, None, cb1, sid], ["new", 2, disp, 4, None],
           ["reg", 0, "x", 1], ["reg", 1, "x", 1], ["reg", 2, "x", 1], ["ovl", [[0, ["y"]], [1, ["y", 1]]], 2]]
    key = "Q" if disp[0] == "ds" else "K"
    for o in ({key: "x", "B": 2}, {key: "u", "B": 2}, {"B": 2}, {"A": 1, "B": 3}):
        ops += [["eval", 0, o], ["eval", 1, o]]
    ops += [["eval", 0, {key: "y", "B": 2}], ["eval", 1, {key: True}], ["eval", 0, {key: "u", "B": 2}], ["eval", 2, {key: "u"}],
            ["reg", 0, "u", 3], ["reg", 1, "u", 3],
            ["eval", 0, {key: "u", "B": 4}], ["eval", 1, {key: "u"}], ["eval", 0, {"B": 4}], ["eval", 1, {}]]
    return {"impls": impls, "disps": DISPS, "ops": ops}


def spelling_cases(seed, thorough):
    """every spelling of the table x the dataset shapes it applies to (quick: two shapes per spelling, rotating with
    the seed, one of them with a callback where the spelling can carry one; thorough: all of them)"""
    cs = []
    for i, sp in enumerate(SPELLINGS):
        shapes = [(d, c) for d, c in SPELL_SHAPES if spell_applicable(sp, d[0] != "missing", c is not None)]
        if thorough:
            cs += [spelling_case(sp["id"], d, c, dk) for d, c in shapes for dk in ("leaf", "opt")]
            continue
        disp = [sh for sh in shapes if sh[0][0] != "missing"]       # (every spelling applies to some of these)
        first = ([sh for sh in disp if sh[1] is not None] or disp)
        first = first[(seed + i) % len(first)]
        rest = [sh for sh in shapes if sh != first and sh[1] is None] or [sh for sh in shapes if sh != first]
        second = rest[(seed + i) % len(rest)]
        cs += [spelling_case(sp["id"], first[0], first[1], "leaf"), spelling_case(sp["id"], second[0], second[1], "opt")]
    return cs


def spelling_entry(per, sid):
    return per.setdefault(sid, {"directed_programs": 0, "datasets": 0, "interface_members": 0,
                                "nested_implementations": 0, "evaluations": 0, "registered_selected": 0,
                                "default_used": 0, "evaluation_error": 0, "oracle_failures": 0})


def spelling_tally(case, res, per, directed=False):
    """per spelling: the datasets built by it in this program, their evaluations, and -- read off the property by
    the reference -- how many selected a registered implementation, used the default implementation because the
    dispatch value was unregistered or undeterminable, or ended in the evaluation error of an abstract dataset
    (only evaluations the oracle accepted are counted in these three)"""
    sp_of = {op[1]: op[5] for op in case["ops"] if op[0] == "new" and len(op) > 5}
    for sp in case["impls"]:
        if sp.get("sp") is not None:
            spelling_entry(per, sp["sp"])["nested_implementations"] += 1
    for op in case["ops"]:
        if op[0] == "iface":
            for m in op[3]:
                if len(m) > 5:
                    spelling_entry(per, m[5])["interface_members"] += 1
                    sp_of[m[1]] = m[5]       # (their evaluations count for the spelling as well)
    if not sp_of:
        return
    for sid in {op[5] for op in case["ops"] if op[0] == "new" and len(op) > 5}:
        e = spelling_entry(per, sid)
        e["directed_programs"] += 1 if directed else 0
        e["datasets"] += sum(1 for op in case["ops"] if op[0] == "new" and len(op) > 5 and op[5] == sid)
    bad_ops = {f["op"] for f in res["fails"]}
    for k, op in enumerate(case["ops"]):       # (DECL / DECOY failures sit on the "new" operation)
        if op[0] == "new" and len(op) > 5 and k in bad_ops:
            spelling_entry(per, op[5])["oracle_failures"] += 1
    evs = [(k, op) for k, op in enumerate(case["ops"]) if op[0] == "eval"]
    obs = [o for o in res["obs"].split(" | ") if o.startswith(("val=", "err="))]
    if len(evs) != len(obs):
        raise Infra("C07: %d evaluations, %d observations in %s" % (len(evs), len(obs), json.dumps(case)[:300]))
    ref = Ref(case)
    for (k, op), o in zip(evs, obs):
        if op[1] not in sp_of:
            continue
        e = spelling_entry(per, sp_of[op[1]])
        e["evaluations"] += 1
        if k in bad_ops:
            e["oracle_failures"] += 1
            continue
        ref.advance(k)
        dv, impl, selerr = ref.select(op[1], op[2])
        r = ref.ds[op[1]]
        if selerr is not None:
            e["evaluation_error"] += 1 if o.startswith("err=") else 0
        elif dv[0] == "ok" and dv[1] is not _Missing and dv[1] in r["table"]:
            e["registered_selected"] += 1 if o.startswith("val=") else 0
        else:
            e["default_used"] += 1 if o.startswith("val=") else 0


def spelling_of(case):
    return next(op[5] for op in case["ops"] if op[0] == "new" and len(op) > 5)


def exhaustive(depth):
    """every history of `depth` operations over a small alphabet on one dataset, 4 dataset shapes"""
    impls = [L("dflt"), L("i1"), L("i2", [("A", {"d": "a0"})])]
    alphabet = [["reg", 0, "x", 1], ["reg", 0, "x", 2], ["reg", 0, 1, 1], ["eval", 0, {"K": "x"}],
                ["eval", 0, {"K": True}], ["eval", 0, {}], ["eval", 0, {"K": "u"}]]
    shapes = [["new", 0, ["key", "K"], 0, None], ["new", 0, ["key", "K"], None, 1],
              ["new", 0, ["keyd", "K", "x"], 0, 1], ["new", 0, ["keyd", "K", 1], None, None]]
    out = []

    def rec(prefix, n):
        if n == 0:
            for sh in shapes:
                out.append({"impls": impls, "disps": DISPS, "ops": [sh] + prefix})
            return
        for a in alphabet:
            rec(prefix + [a], n - 1)

    rec([], depth)
    return out


def has_trigger(case):
    """does the history re-dispatch a dataset after evaluating it (F24's precondition)?"""
    evaluated = set()
    for op in case["ops"]:
        if op[0] == "eval":
            evaluated.add(op[1])
        elif op[0] == "setd" and op[1] in evaluated:
            return True
        elif op[0] == "iface" and any(m[2] == "ext" and m[1] in evaluated for m in op[3]):
            return True
    return False


def valid(case):
    """every reference is defined before use, members are not re-dispatched"""
    ds, ifs, members = set(), {}, set()
    ni = len(case["impls"])
    try:
        for op in case["ops"]:
            k = op[0]
            if k == "new":
                if op[1] in ds or (op[3] is not None and not 0 <= op[3] < ni):
                    return False
                ds.add(op[1])
            elif k == "reg":
                if op[1] not in ds or not 0 <= op[3] < ni:
                    return False
            elif k == "ovl":
                if any(d not in ds for d, _ in op[1]) or not op[1]:
                    return False
            elif k == "setd":
                if op[1] not in ds or op[1] in members:
                    return False
            elif k == "iface":
                if op[1] in ifs:
                    return False
                for name, d, mk, dflt, cb in (m[:5] for m in op[3]):
                    if mk == "ext":
                        if d not in ds or d in members:
                            return False
                    else:
                        if d in ds:
                            return False
                        ds.add(d)
                    members.add(d)
                ifs[op[1]] = True
            elif k == "impl":
                if any(I not in ifs for I in op[1]) or not op[1] or not op[2]:
                    return False
            elif k == "eval":
                if op[1] not in ds:
                    return False
    except (IndexError, TypeError, ValueError):
        return False
    return True


# --------------------------------------------------------------------------------------------
# exploration


def known_ids():
    return {k["id"] for k in known_findings().get("known", [])}


def classify(payload):
    """known-finding trigger predicate.  F24: the history re-dispatches (set_dispatch, or an
    interface adopting an existing dataset) a dataset that already holds a stored entry, and
    every oracle failure is a later evaluation that reproduces such an entry's fingerprint
    (kind cross-dispatch with a re-dispatch between the store and the hit)."""
    fails = payload.get("fails") or []
    case = payload.get("case")
    if not fails or case is None or not has_trigger(case):
        return None
    for f in fails:
        if f.get("kind") != "cross-dispatch" or not f.get("setd_between"):
            return None
    return F24


def fails_key(fails):
    return sorted({f["kind"] for f in fails})


def shrink(case, still_bad):
    """greedy one-operation deletion while `still_bad(candidates) -> list[bool]` holds"""
    cur = case
    for _ in range(40):
        cands = []
        for k in range(len(cur["ops"])):
            c = {"impls": cur["impls"], "disps": cur["disps"], "ops": cur["ops"][:k] + cur["ops"][k + 1:]}
            if valid(c):
                cands.append(c)
        # also try simplifying option dictionaries
        for k, op in enumerate(cur["ops"]):
            if op[0] == "eval":
                for key in list(op[2]):
                    if key == "A" and has_ox(cur):     # (what keeps two dictionaries of that family apart: F19)
                        continue
                    o2 = {a: b for a, b in op[2].items() if a != key}
                    c = {"impls": cur["impls"], "disps": cur["disps"],
                         "ops": cur["ops"][:k] + [["eval", op[1], o2]] + cur["ops"][k + 1:]}
                    cands.append(c)
        if not cands:
            break
        bad = still_bad(cands)
        nxt = None
        for c, b in zip(cands, bad):
            if b and (len(c["ops"]) < len(cur["ops"]) or json.dumps(c) < json.dumps(cur)):
                nxt = c
                if len(c["ops"]) < len(cur["ops"]):
                    break
        if nxt is None:
            break
        cur = nxt
    return cur


def evaluate_cases(cases):
    """-> list of (impl result dict, model line)"""
    impl = run_impl(cases)
    model = run_model(cases)
    return list(zip(impl, model))


def is_nontrivial(case):
    seen_reg = False
    for op in case["ops"]:
        if op[0] in ("reg", "ovl", "impl"):
            seen_reg = True
        elif op[0] == "eval" and seen_reg:
            return True
    return False


def new_stats():
    return {"programs": 0, "evaluations": 0, "compared": 0, "ops": {}, "sizes": {}, "obs": {}, "known_seen": 0,
            "more_failures_not_shrunk": 0}


def per_class_entry(per, rid):
    return per.setdefault(rid, {"programs": 0, "evaluations": 0, "failing_dispatch_evaluations": 0,
                                "default_used": 0, "evaluation_error": 0, "oracle_failures": 0})


def sweep_direct(cases, results, findings, stats, per, dist, max_findings=4):
    """the direct programs of the dispatch-failure family: python-level oracle only"""
    nfound = 0
    for case, res in zip(cases, results):
        xc = case["x"]
        if res.get("crash"):
            raise Infra("C07 harness crash on %s: %s" % (json.dumps(case), res["crash"]))
        stats["programs"] += 1
        e = per_class_entry(per, xc["exc"])
        e["programs"] += 1
        dist["form"][xc["form"]] = dist["form"].get(xc["form"], 0) + 1
        dist["trig"][xc["trig"]] = dist["trig"].get(xc["trig"], 0) + 1
        for pos, dflt, full in xc["targets"]:
            key = pos + (" (default)" if dflt else " (abstract)")
            dist["pos"][key] = dist["pos"].get(key, 0) + 1
        bad_ops = {f["op"] for f in res["fails"]}
        for n, (k, label, kind) in enumerate(res["outs"]):
            stats["evaluations"] += 1
            e["evaluations"] += 1
            if label.startswith("dispatch-"):
                e["failing_dispatch_evaluations"] += 1
                if n not in bad_ops:
                    # (for the coalesce / outer-switch positions the "default" is the enclosing fallback)
                    e["default_used" if kind == "val" else "evaluation_error"] += 1
        if res["fails"]:
            e["oracle_failures"] += 1
            stats["oracle_failures"] = stats.get("oracle_failures", 0) + 1
            if nfound < max_findings:
                nfound += 1
                # the replay is the program with the one target of the first failure, when that fails alone
                k = res["fails"][0]["target"]
                small = {"x": dict(xc, targets=[xc["targets"][k]])}
                (r2,) = run_impl([small])
                if not r2["fails"]:
                    small = case
                    (r2,) = run_impl([small])
                    if not r2["fails"]:
                        raise Infra("C07: an oracle failure seen in a batch does not reproduce in isolation: "
                                    + json.dumps(case))
                f0 = r2["fails"][0]
                findings.append(Finding(
                    "failing-input",
                    "property oracle failed on labrea: %s at evaluation '%s' (dispatch expression failing with %s, "
                    "%s form; position %s, %s)" % (f0["kind"], f0["eval"], xc["exc"], xc["form"], f0["pos"],
                                                   "with a default" if f0["dflt"] else "abstract"),
                    {"case": small, "impl_obs": r2["obs"], "fails": r2["fails"], "stream": "dispatch-failure-direct"}))


def sweep(cases, stream, findings, stats, max_findings=4, collect=None, results=None):
    """run one stream of cases; append findings (shrunk) and update stats"""
    if results is None:
        results = evaluate_cases(cases)
    listed = known_ids()
    nfound = 0
    for case, (res, mline) in zip(cases, results):
        if collect is not None:
            collect.append((case, res))
        stats["programs"] += 1
        for op in case["ops"]:
            stats["ops"][op[0]] = stats["ops"].get(op[0], 0) + 1
        stats["sizes"][len(case["ops"])] = stats["sizes"].get(len(case["ops"]), 0) + 1
        for o in res["obs"].split(" | "):
            if o.startswith("val="):
                key = "eval-hit" if " hit " in o else "eval-miss"
            elif o.startswith("err="):
                key = "eval-" + o[4:].split(":")[0]
            else:
                key = ":".join(o.split(":")[:2])
            stats["obs"][key] = stats["obs"].get(key, 0) + 1
            if o.startswith(("val=", "err=")):
                stats["evaluations"] += 1
        if res.get("crash"):
            raise Infra("C07 harness crash on %s: %s" % (json.dumps(case)[:400], res["crash"]))
        bad_corr = obs_differ(case, res["obs"], mline)
        stats["compared"] += 1
        if bad_corr and nfound < max_findings:
            nfound += 1

            def still(cands):
                return [obs_differ(c_, r["obs"], m) and not r.get("crash") for c_, (r, m) in zip(cands, evaluate_cases(cands))]

            small = shrink(case, still)
            (r2, m2), = evaluate_cases([small])
            if not obs_differ(small, r2["obs"], m2):          # must reproduce when run alone
                small = case
                (r2, m2), = evaluate_cases([small])
                if not obs_differ(small, r2["obs"], m2):
                    raise Infra("C07: a disagreement seen in a batch does not reproduce in isolation: "
                                + json.dumps(case)[:300])
            findings.append(Finding("correspondence",
                                    "model and labrea disagree on a history (%s stream)" % stream,
                                    {"case": small, "impl_obs": r2["obs"], "model_obs": m2, "fails": r2["fails"],
                                     "stream": stream}))
        if res["fails"] and nfound < max_findings:
            nfound += 1
            kinds = fails_key(res["fails"])

            def still2(cands):
                return [bool(r["fails"]) and fails_key(r["fails"]) == kinds for r, _ in evaluate_cases(cands)]

            small = shrink(case, still2)
            (r2, m2), = evaluate_cases([small])
            if not r2["fails"]:          # must reproduce when run alone
                small = case
                (r2, m2), = evaluate_cases([small])
                if not r2["fails"]:
                    raise Infra("C07: an oracle failure seen in a batch does not reproduce in isolation: "
                                + json.dumps(case)[:300])
            payload = {"case": small, "impl_obs": r2["obs"], "model_obs": m2, "fails": r2["fails"],
                       "stream": stream}
            kid = classify(payload)
            f = Finding("failing-input",
                        "property oracle failed on labrea: %s (op %d of a %d-operation history)"
                        % (r2["fails"][0]["kind"], r2["fails"][0]["op"], len(small["ops"])), payload)
            if kid is not None and kid in listed:
                f.known_id = kid
                stats["known_seen"] += 1
            findings.append(f)
        elif res["fails"]:
            # beyond the shrinking budget: still classify; anything that is not the listed known
            # finding is reported as it stands
            stats["more_failures_not_shrunk"] += 1
            payload = {"case": case, "impl_obs": res["obs"], "model_obs": mline, "fails": res["fails"],
                       "stream": stream}
            kid = classify(payload)
            if kid is not None and kid in listed:
                stats["known_seen"] += 1
            elif nfound < max_findings + 6:
                nfound += 1
                findings.append(Finding("failing-input", "property oracle failed on labrea: %s (not shrunk)"
                                        % res["fails"][0]["kind"], payload))


def explore(ctx):
    rng = random.Random(ctx.seed)
    thorough = ctx.tier == "thorough"
    findings = []
    stats = new_stats()
    main = corpus()
    assert all(valid(c) and not has_trigger(c) for c in main), "corpus must be valid and trigger-free"
    # (the hand-written corpus keeps the plainest spelling; every other dataset gets one from the table, by its
    # number and the number of its program -- the random stream is not consumed, the histories are what they were)
    main += [annotate(c, n, ctx.seed) for n, c in enumerate(exhaustive(4 if thorough else 3))]
    nrand = 9000 if thorough else 700
    for n in range(nrand):
        g = CaseGen(rng)
        c = annotate(g.build(rng.randint(3, 15)), n, ctx.seed)
        assert valid(c) and not has_trigger(c)
        main.append(c)
    distinct = {json.dumps(c, sort_keys=True) for c in main}
    nontrivial = {json.dumps(c, sort_keys=True) for c in main if is_nontrivial(c)}
    # the directed dispatch-failure family runs on labrea next to the main stream (own processes; the cases
    # and the order of their results do not depend on the scheduling)
    from concurrent.futures import ThreadPoolExecutor
    xm = exc_model_cases(ctx.seed, thorough)
    xd = exc_direct_cases(ctx.seed, thorough)
    assert all(valid(c) and not has_trigger(c) for c in xm)
    sc = spelling_cases(ctx.seed, thorough)
    assert all(valid(c) and not has_trigger(c) for c in sc)
    of = oform_cases(ctx.seed, thorough)
    assert all(valid(c) and not has_trigger(c) for c in of)
    pool = ThreadPoolExecutor(max_workers=7)
    fut_of = pool.submit(run_impl_chunks, of, 6 if thorough else 4)
    fut_op = pool.submit(run_impl, [{"probe": "option-dispatch"}])
    fut_sc = pool.submit(run_impl_chunks, sc, 2)
    fut_main = pool.submit(lambda: list(zip(run_impl_chunks(main, 2), run_model(main))))
    fut_xm = pool.submit(run_impl_chunks, xm, 4 if thorough else 2)
    fut_xd = pool.submit(run_impl_chunks, xd, 6 if thorough else 2)
    fut_pr = pool.submit(run_impl, [{"probe": "factory-keywords"}])
    pool.shutdown(wait=False)
    # directed family: every way an Option-based dispatch can or cannot be determined
    ostats, ocoll, oper, oways = new_stats(), [], {}, {}
    of_model = run_model(of)
    sweep(of, "option-dispatch", findings, ostats, max_findings=2, collect=ocoll,
          results=list(zip(fut_of.result(), of_model)))
    nofp_dev = {}
    for c, res in ocoll:
        oform_tally(c, res, oper, oways)
    for c, (res, mline) in zip(of, zip([r for _, r in ocoll], of_model)):
        if c["disps"][1].get("nofp"):
            a, b = res["obs"].split(" | "), mline.split(" | ")
            nofp_dev[c["oform"]] = {"why": c["disps"][1]["nofp"],
                                    "observations_differing_in_the_fingerprint_only":
                                        sum(1 for x, y in zip(a, b) if x != y and _FP.sub("", x) == _FP.sub("", y)),
                                    "first": next(([x, y] for x, y in zip(a, b) if x != y), None)}
    need = ("determinable_registered", "determinable_unregistered", "registered_selected", "default_used",
            "evaluation_error")
    if set(oper) != set(OFORMS) or not all(e["evaluations"] for e in oper.values()) or not all(
            e["oracle_failures"] or (all(e[n] for n in need) and (e["undeterminable"] or w in OFORM_ALWAYS_DETERMINABLE))
            for w, e in oways.items()):
        raise Infra("C07: the Option-dispatch family did not meet, in every way it lists, a dispatch that is "
                    "determinable and registered, determinable and unregistered, and undeterminable")
    # directed family: every spelling of the dataset factories (its replays are small)
    sstats, scoll, mcoll, sper = new_stats(), [], [], {}
    sweep(sc, "spelling", findings, sstats, max_findings=3, collect=scoll,
          results=list(zip(fut_sc.result(), run_model(sc))))
    for c, res in scoll:
        spelling_tally(c, res, sper, directed=True)
    if set(sper) != set(SPELL) or not all(e["directed_programs"] and
                                          (e["oracle_failures"] or (e["default_used"] and e["evaluation_error"]
                                                                    and e["registered_selected"]))
                                          for e in sper.values()):
        raise Infra("C07: the spelling family did not cover every row of the spelling table")
    sweep(main, "main", findings, stats, collect=mcoll, results=fut_main.result())
    for c, res in mcoll:
        spelling_tally(c, res, sper)
    # known finding F24: separate stream, every oracle failure must classify to F24
    trig = trigger_corpus() + trigger_random(rng, 300 if thorough else 40)
    trig = [c for c in trig if valid(c)]
    tstats = {"programs": 0, "evaluations": 0, "compared": 0, "ops": {}, "sizes": {}, "obs": {}, "known_seen": 0,
              "more_failures_not_shrunk": 0}
    sweep(trig, "set_dispatch-on-warm-cache", findings, tstats, max_findings=3)
    # directed family: the dispatch evaluation fails with every Exception class, at every position
    xstats, dstats, coll, per = new_stats(), new_stats(), [], {}
    dist = {"pos": {}, "form": {}, "trig": {}}
    # (the direct programs first: their replays are the smallest)
    sweep_direct(xd, fut_xd.result(), findings, dstats, per, dist, max_findings=2)
    sweep(xm, "dispatch-failure", findings, xstats, max_findings=2, collect=coll,
          results=list(zip(fut_xm.result(), run_model(xm))))
    for c, res in coll:
        e = per_class_entry(per, c["xrow"])
        e["programs"] += 1
        dist["form"][c["disps"][1]["form"]] = dist["form"].get(c["disps"][1]["form"], 0) + 1
        dist["pos"]["history (model-compared)"] = dist["pos"].get("history (model-compared)", 0) + 1
        evs = [(k, op) for k, op in enumerate(c["ops"]) if op[0] == "eval"]
        obs = [o for o in res["obs"].split(" | ") if o.startswith(("val=", "err="))]
        e["oracle_failures"] += 1 if res["fails"] else 0
        bad_ops = {f["op"] for f in res["fails"]}
        if len(evs) != len(obs):
            raise Infra("C07: %d evaluations, %d observations for %s" % (len(evs), len(obs), c["xrow"]))
        for (k, op), o in zip(evs, obs):
            e["evaluations"] += 1
            if "QX" not in op[2]:
                e["failing_dispatch_evaluations"] += 1
                if k not in bad_ops:
                    e["default_used" if o.startswith("val=") else "evaluation_error"] += 1
    if set(per) != set(EXC) or not all(e["failing_dispatch_evaluations"] and
                                       (e["oracle_failures"] or (e["default_used"] and e["evaluation_error"]))
                                       for e in per.values()):
        raise Infra("C07: the dispatch-failure family did not cover every row of the exception table")
    distinct |= {json.dumps(c, sort_keys=True) for c in xm + xd + sc + of}
    nontrivial |= {json.dumps(c, sort_keys=True) for c in xm + xd + sc + of}
    samples = [json.dumps(c["ops"])[:600] for c in (main[1], main[6], main[len(corpus()) + 5], main[-1], trig[0])]
    samples += [json.dumps({"disps": xm[0]["disps"], "ops": xm[0]["ops"]})[:700], json.dumps(xd[0]), json.dumps(xd[-1])]
    samples += [json.dumps(sc[len(sc) // 3]["ops"])[:700],
                Gen({"impls": sc[len(sc) // 3]["impls"], "disps": DISPS, "ops": sc[len(sc) // 3]["ops"][:2]}).program()]
    osample = next(c for c in of if c["oform"] == "Option(K, 'auto', domain=list)")
    samples += [json.dumps({"disps": osample["disps"][1:], "ops": osample["ops"]})[:900],
                "\n".join(ox_lines("dd1", 1, of[len(of) // 2]["disps"][1]["ox"]))]
    (probe,) = fut_pr.result()
    (oprobe,) = fut_op.result()
    for st in (xstats, dstats, sstats, ostats):
        for k in ("programs", "evaluations", "compared"):
            stats[k] += st[k]
    cov = {
        "evaluations": stats["evaluations"] + tstats["evaluations"],
        "programs": stats["programs"] + tstats["programs"],
        "distinct_programs": len(distinct),
        "distinct_nontrivial": len(nontrivial),
        "rule": "a history is non-trivial when an evaluation follows a register/overload/implementation "
                "operation (so the table read at evaluation time is not the one the dataset was created with); "
                "every program of the dispatch-failure family registers an implementation before evaluating",
        "disagreements_checked": stats["compared"] + tstats["compared"],
        "samples": samples,
        "distribution": {"operations": stats["ops"], "history_sizes": stats["sizes"],
                         "observations": stats["obs"],
                         "trigger_stream": {"programs": tstats["programs"], "observations": tstats["obs"],
                                            "oracle_failures_attributed_to_F24": tstats["known_seen"]},
                         "spelling_family": {
                             "what": "every dataset outside the hand-written corpus is built through one row of the "
                                     "spelling table (all public ways of configuring dataset / abstractdataset: "
                                     "decorator, f first, f last, None first, wrap, update, where, nocache, "
                                     "set_dispatch / set_cache afterwards, several steps, a reused factory, every "
                                     "keyword also with its None / empty value, abstract given on the agreeing and "
                                     "on the disagreeing factory); the model is told the folded meaning (last "
                                     "explicit value wins, None or omitted inherits).  per_spelling is measured on "
                                     "this run over the directed programs (each row, both abstractnesses) and "
                                     "the exhaustive / random programs (there also the @dataset / @abstractdataset "
                                     "members of interfaces and the dispatching datasets used as implementations, "
                                     "in the rows that need no cache keyword)",
                             "spellings": len(SPELLINGS),
                             "directed_programs": sstats["programs"],
                             "directed_observations": sstats["obs"],
                             "datasets_built_by_a_spelling": sum(e["datasets"] for e in sper.values()),
                             "interface_members_built_by_a_spelling": sum(e["interface_members"] for e in sper.values()),
                             "nested_implementations_built_by_a_spelling": sum(e["nested_implementations"]
                                                                               for e in sper.values()),
                             "oracle_failures": sum(e["oracle_failures"] for e in sper.values()),
                             "per_spelling": sper,
                             "not_in_the_violation_oracle": probe.get("probe", [])},
                         "option_dispatch_family": {
                             "what": "the dispatch is an Option-based expression (rows of oform_rows: the key absent "
                                     "without / with a default, the default inside / outside a domain given as a "
                                     "container, a predicate, an Evaluatable, a labrea.functions helper; the key "
                                     "present inside / outside the domain; None and falsy values; type= annotations; "
                                     "templated values; dotted keys and the string form; members of an "
                                     "Option.namespace; default_factory; the key pinned by WithOptions / "
                                     "WithDefaultOptions / Dataset.with_options; Option >> f, case, switch, coalesce "
                                     "over such Options).  The harness computes from the documented reading of the "
                                     "expression -- without labrea -- the dispatch value of every evaluation, or that "
                                     "there is none, and the option keys it was read from; the model is told that and "
                                     "nothing else.  Per row: a dataset with a default implementation and a callback, "
                                     "an abstract dataset, an interface with an abstract member, a member with a "
                                     "default that is overridden and one that is not, implementations registered "
                                     "under exactly the values in play (the out-of-domain default among them).  The "
                                     "counts are measured on this run by the reference reading (determinable_*, "
                                     "undeterminable) and by the outcome the oracle accepted (registered_selected, "
                                     "default_used, evaluation_error)",
                             "rows": len(OFORM_ROWS),
                             "model_compared_histories": ostats["programs"],
                             "observations": ostats["obs"],
                             "oracle_failures": sum(e["oracle_failures"] for e in oper.values()),
                             "per_way": oways,
                             "per_form": oper,
                             "compared_without_fingerprints": nofp_dev,
                             "not_in_the_violation_oracle": oprobe.get("probe", [])},
                         "dispatch_failure_family": {
                             "what": "a computed dispatch expression fails inside user code with the row's "
                                     "exception; per_class counts are measured on this run: evaluations whose "
                                     "dispatch failed, how many of them used the default implementation (or the "
                                     "enclosing coalesce / switch fallback) and how many ended in an "
                                     "EvaluationError, as the oracle demands",
                             "exception_classes": len(per),
                             "model_compared_histories": xstats["programs"],
                             "direct_programs": dstats["programs"],
                             "observations": xstats["obs"],
                             "positions": dist["pos"], "forms": dist["form"], "triggers": dist["trig"],
                             "oracle_failures": sum(e["oracle_failures"] for e in per.values()),
                             "per_class": per}},
        "oracle": "per evaluation: value == callback(selected implementation evaluated directly on a fresh "
                  "object) unless a stored entry is returned; hits keep their dispatch value; callback runs "
                  "exactly once per miss; interface members report one alias; rejected implementations "
                  "leave every member table unchanged; a failing evaluation fails with an EvaluationError; "
                  "a dispatch expression that fails (any Exception class) selects the default implementation; "
                  "a dataset is_abstract exactly when declared so, whatever spelling built it, and holds the cache "
                  "it was given; the other datasets of a reused factory are what the factory's own keywords say",
    }
    return Exploration(findings, cov)


def failing_input_search(ctx, why):
    """larger random budget, oracle only"""
    rng = random.Random(ctx.seed + 7919)
    cases = []
    for n in range(4000):
        g = CaseGen(rng)
        cases.append(annotate(g.build(rng.randint(3, 15)), n, ctx.seed + 1))
    findings = []
    stats = {"programs": 0, "evaluations": 0, "compared": 0, "ops": {}, "sizes": {}, "obs": {}, "known_seen": 0,
             "more_failures_not_shrunk": 0}
    sweep(cases, "search", findings, stats, max_findings=3)
    return [f for f in findings if f.kind == "failing-input"]


def replay_direct(case):
    (res,) = run_impl([case], want_src=True)
    if res.get("crash"):
        print("harness crash:", res["crash"])
        return 2
    print("# program built through labrea's public API (REPO=%s); the T<k> are evaluated as listed below:" % REPO)
    print(res.get("src", ""))
    print("case        :", json.dumps(case))
    for k, label, o, exp in res["evals"]:
        print("  T%d.evaluate(%s)  [%s]  expected %s" % (k, json.dumps(o), label, json.dumps(exp)))
    print("labrea      :", res["obs"])
    print("model       : (not in the model's language; its reading of a failing dispatch is the oracle's: the "
          "default implementation, or an EvaluationError when there is none)")
    print("oracle fails:", json.dumps(res["fails"], default=repr))
    print("verdict     :", "STILL FAILS" if res["fails"] else "passes")
    return 1 if res["fails"] else 0


def replay(ctx, payload):
    case = payload["case"]
    if "x" in case:
        return replay_direct(case)
    err = lean_build(SPEC.drivers)
    if err:
        print("cannot build drv_iface:", err[-500:])
        return 2
    (res,) = run_impl([case], want_src=True)
    (mline,) = run_model([case])
    print("# program built through labrea's public API (REPO=%s):" % REPO)
    print(res.get("src", ""))
    print("operations  :", json.dumps(case["ops"]))
    print("labrea      :", res["obs"])
    print("model       :", mline)
    print("oracle fails:", json.dumps(res["fails"], default=repr))
    kid = classify({"case": case, "fails": res["fails"]})
    if kid:
        print("classified  : known finding", kid)
    bad = obs_differ(case, res["obs"], mline) or bool(res["fails"])
    print("verdict     :", "STILL FAILS" if bad else "passes")
    return 1 if bad else 0


if __name__ == "__main__":
    if "--runner" in sys.argv:
        runner_main()
        sys.exit(0)
    sys.exit(main_check(SPEC, explore, failing_input_search, replay))
